/-
C23 — confirmed transactions leave the mempool.

Model: `Model/NodePool` (= `Model/NodeLedger` + the mempool model `Model/TxPool`): submission
through `Chain.ValidateTx`, pool maintenance at the end of `reorganizeChain` (`afterReorg`), the
proposer's removals.  Histories are lists of events `define | submit | block | vote | propose`
(`Lemmas/NodePoolInv.Ev`, `run`) from any starting state.  The main chain is what
`Chain.InMainChain` answers: the height index up to the best block's height (`mainBlocks`).

(1) what the pool maintenance does, unconditionally (`afterReorg_removes_attached`,
    `afterReorg_keeps_reattached`, `afterReorg_phases`);
(2) `pool_disjoint_mainchain`: for every history whose base layer is sound (`HistOK`:
    `BaseSound` in every state — the C10 fact "the persisted utxo set is the effect of the main
    chain", used in the form: a confirmed transaction has an input that is not spendable and
    that only confirmed transactions create; `IndexStep` across every step — the C11 fact "the
    index is the path to the best block and calcReorganizeChain returns the two paths to the
    fork point") no pooled transaction id occurs in a block of the main-chain index.  Neither
    `BaseSound` is derived from pc10's C10 invariant (`ledgerSound_from_C10`: `Reach` for the
    main chain ⇒ `BaseSound`); what stays a hypothesis is the index half (that the chain C10
    speaks about is the node's height index — C11 `index_consistent`, `calcReorganize_correct`).
    Without `BaseSound` the statement is false for the model (`c23_full_refuted`): `c23_full`
    quantifies over arbitrary starting states of the base layer.
(3) `events_paired`: the notification log = the difference of the set of pooled ids between
    consecutive states (what the driver prints after every op and what agrees, line by line,
    with the real dispatcher's MsgNewTx / MsgRemoveTx stream in every run): for every id the
    notifications alternate add, remove, add, … starting with an add — each addition is followed
    by at most one removal before the next addition, every removal is preceded by an addition.
    No hypothesis about the base layer is needed (`tp.pool` is a map: its keys stay distinct,
    `pool_keys_distinct`).
-/
import BytomModel.Lemmas.NodePoolInv
import BytomModel.Lemmas.PoolKeys
import BytomModel.Lemmas.PoolLedgerBridge

namespace BytomModel.Props.C23
open BytomModel.Node BytomModel.Ledger BytomModel.NodeLedger BytomModel.NodePool
open BytomModel.TxPool (amGet removeTransaction)
open BytomModel.Lemmas.NodePoolInv BytomModel.Lemmas.PoolSafe

/-! ### (1) the pool maintenance of `reorganizeChain`, as the code does it -/

/-- `afterReorg` = nothing when a header is missing / calcReorganizeChain fails; otherwise the
    `RemoveTransaction` loop over `txsToRemove` followed by the `ValidateTx` loop over
    `txsToRestore` -/
theorem afterReorg_phases (s : NodePool.State) (old : Nat) :
    s.afterReorg old = match reorgLists s.base.node old with
      | none => s
      | some (att, det) => restore (toRestore s att det) { s with pool := removed s att det } := by
  rw [afterReorg_eq]
  cases reorgLists s.base.node old with
  | none => rfl
  | some p => obtain ⟨att, det⟩ := p; rfl

/-- **after the removal loop no transaction of an attached block is pooled, unless it was also in
    a detached block** -/
theorem afterReorg_removes_attached (s : NodePool.State) (att det : List Header) (id : Nat)
    (hatt : id ∈ attIdsOf s att) (hdet : id ∉ detIdsOf s det) :
    amGet (removed s att det).pool id = none := by
  apply foldl_remove_gone
  unfold toRemove
  refine List.mem_filter.mpr ⟨hatt, ?_⟩
  simp only [Bool.not_eq_true', List.contains_eq_mem, decide_eq_false_iff_not]
  exact hdet

/-- a transaction that was detached and attached again (it is in both maps: the code deletes it
    from `txsToRestore` and does not put it into `txsToRemove`), and any transaction that is in no
    attached block, keeps its pool entry through the removal loop -/
theorem afterReorg_keeps_reattached (s : NodePool.State) (att det : List Header) (id : Nat)
    (h : id ∈ detIdsOf s det ∨ id ∉ attIdsOf s att) :
    amGet (removed s att det).pool id = amGet s.pool.pool id := by
  apply foldl_remove_keep
  unfold toRemove
  intro hm
  obtain ⟨h1, h2⟩ := List.mem_filter.mp hm
  simp only [Bool.not_eq_true', List.contains_eq_mem, decide_eq_false_iff_not] at h2
  rcases h with h | h
  · exact h2 h
  · exact h h1

/-- exactly the detached-and-not-reattached transactions are handed to `Chain.ValidateTx` again -/
theorem afterReorg_restores (s : NodePool.State) (att det : List Header) (id : Nat) :
    id ∈ toRestore s att det ↔ id ∈ detIdsOf s det ∧ id ∉ attIdsOf s att := by
  unfold toRestore
  rw [List.mem_mergeSort, List.mem_eraseDups, List.mem_filter]
  simp only [Bool.not_eq_true', List.contains_eq_mem, decide_eq_false_iff_not]

/-- the whole maintenance re-establishes "pool ∩ main chain = ∅" for the NEW main chain, given
    that the ledger below is sound before and after and the index moved as C11 says -/
theorem afterReorg_disjoint {UL : List Ledger.Tx} (wf : WFL UL) {s : NodePool.State} (h : PInv UL s)
    (f : NodeLedger.State → NodeLedger.State × Res) (hbt : (f s.base).1.blockTxs = s.base.blockTxs)
    (hpre : BaseSound UL s.base) (hpost : BaseSound UL (f s.base).1) (hix : IndexStep s.base (f s.base).1) :
    ∀ id ∈ poolIds (s.step f).1, id ∉ confirmedIds (s.step f).1.base := by
  intro id hid
  obtain ⟨tx, htx⟩ := mem_keys_amGet _ _ hid
  exact (pinv_step wf h f hbt hpre hpost hix).1.1.noK id tx htx

/-! ### (2) the invariant over histories -/

/-- a state whose pool is empty and whose known transactions belong to the universe -/
theorem pinv_empty_pool (UL : List Ledger.Tx) (s : NodePool.State) (hp : s.pool = TxPool.Pool.empty)
    (hd : ∀ t ∈ s.txdefs, t ∈ UL) : PInv UL s := by
  refine ⟨?_, hd⟩
  rw [hp]
  exact Safe.empty _ _

/-- **C23 (2).** For every history of define / submit / block / vote / propose events from a
    state satisfying the invariant (e.g. any state with an empty pool) whose base layer is sound
    (`HistOK`), no pooled transaction id occurs in a block of the main-chain index. -/
theorem pool_disjoint_mainchain (UL : List Ledger.Tx) (wf : WFL UL) (s0 : NodePool.State) (h0 : PInv UL s0)
    (evs : List Ev) (hok : HistOK UL s0 evs) :
    ∀ id ∈ poolIds (run s0 evs), id ∉ confirmedIds (run s0 evs).base := by
  intro id hid
  obtain ⟨tx, htx⟩ := mem_keys_amGet _ _ hid
  exact (pinv_run wf evs s0 h0 hok).1.noK id tx htx

/-- the same for every prefix of the history, i.e. after every event -/
theorem pool_disjoint_mainchain_always (UL : List Ledger.Tx) (wf : WFL UL) (s0 : NodePool.State) (h0 : PInv UL s0)
    (evs rest : List Ev) (hok : HistOK UL s0 (evs ++ rest)) :
    ∀ id ∈ poolIds (run s0 evs), id ∉ confirmedIds (run s0 evs).base := by
  have hpre : ∀ (evs : List Ev) (s : NodePool.State), HistOK UL s (evs ++ rest) → HistOK UL s evs := by
    intro evs
    induction evs with
    | nil =>
      intro s h
      cases rest with
      | nil => exact h
      | cons e es => exact h.1
    | cons e es ih =>
      intro s h
      exact ⟨h.1, h.2.1, h.2.2.1, ih _ h.2.2.2⟩
  exact pool_disjoint_mainchain UL wf s0 h0 evs (hpre evs s0 hok)

/-- consequences used by the other clauses: a pooled transaction is a universe transaction with
    at least one input, and a confirmed transaction handed to `ValidateTx` is never pooled -/
theorem confirmed_submit_not_pooled (UL : List Ledger.Tx) (wf : WFL UL) (s : NodePool.State) (h : PInv UL s)
    (hb : BaseSound UL s.base) (t : Ledger.Tx) (ht : t ∈ UL) (hne : t.ins ≠ []) (hc : t.id ∈ confirmedIds s.base) :
    t.id ∉ poolIds (s.submit t).1 := by
  intro hid
  obtain ⟨tx, htx⟩ := mem_keys_amGet _ _ hid
  have := (pinv_submit wf h hb ht hne).1.noK t.id tx htx
  rw [submit_base] at this
  exact this hc

/-! #### non-vacuity: a concrete history with a confirmation meets every hypothesis -/

def exG : Header := { id := 0, parent := 4294967295, height := 0, slot := 0, rank := 0, sup := [] }
def exB1 : Header := { id := 1, parent := 0, height := 1, slot := 1, rank := 5, sup := [] }
def exB2 : Header := { id := 2, parent := 0, height := 1, slot := 1, rank := 9, sup := [] }
def exB3 : Header := { id := 3, parent := 2, height := 2, slot := 2, rank := 3, sup := [] }
def exCb0 : Ledger.Tx := { id := 1000, ins := [], outs := [{ id := 100, kind := .normal, amount := 50 }] }
def exCb1 : Ledger.Tx := { id := 1001, ins := [], outs := [{ id := 101, kind := .normal, amount := 0 }] }
def exCb2 : Ledger.Tx := { id := 1002, ins := [], outs := [{ id := 102, kind := .normal, amount := 0 }] }
def exCb3 : Ledger.Tx := { id := 1003, ins := [], outs := [{ id := 103, kind := .normal, amount := 0 }] }
def exTA : Ledger.Tx := { id := 10, ins := [100], outs := [{ id := 200, kind := .normal, amount := 45 }] }
def exTB : Ledger.Tx := { id := 11, ins := [200], outs := [{ id := 201, kind := .normal, amount := 40 }] }
def exUL : List Ledger.Tx := [exCb0, exCb1, exCb2, exCb3, exTA, exTB]

def exS0 : NodePool.State :=
  { base := NodeLedger.State.init { epoch := 4, nVal := 1, me := none } { coinbasePending := 0 } exG [exCb0],
    pool := TxPool.Pool.empty, txdefs := [], now := 0 }

/-- tA and its child tB are submitted, block b1 confirms tA, tA is submitted again (→ orphan),
    the proposer runs, then the branch b2–b3 (without tA) wins and detaches b1 -/
def exEvs : List Ev :=
  [.define exB1 [exCb1, exTA] none, .submit exTA, .submit exTB, .block exB1, .submit exTA, .propose,
   .define exB2 [exCb2] none, .define exB3 [exCb3] none, .block exB2, .block exB3]

example : WFL exUL := by decide
example : PInv exUL exS0 := pinv_empty_pool _ _ rfl (by intro t h; cases h)
example : HistOK exUL exS0 exEvs := histOK_of_base _ _ (by decide)
/-- the history really confirms tA and then reorganises it away -/
example : confirmedIds ((exEvs.take 4).foldl baseStep exS0.base) = [10] ∧ confirmedIds (exEvs.foldl baseStep exS0.base) = [] := by decide

/-! #### the ledger hypothesis from C10 -/

/-- **`BaseSound` (LedgerSound) is a consequence of pc10's C10 invariant.**  If the persisted
    tables were reached (`Lemmas.Ledger.Reach`: any history of extensions and reorganisations
    the ledger accepted — preserved by every step of the node, C10 `settle_preserves_reach`)
    ending on the chain `C`, and `C` is the list of the main-chain blocks' transactions, made of
    universe transactions with an input-less first transaction per block, then every confirmed
    transaction has an unspendable input that only confirmed transactions create.  What remains
    a hypothesis is only that `C` IS the node's main chain (`hC`) — the index half, C11. -/
theorem ledgerSound_from_C10 {UL : List Ledger.Tx} (wf : WFL UL) (b : NodeLedger.State)
    (C : List BytomModel.Lemmas.Ledger.Blk)
    (hreach : BytomModel.Lemmas.Ledger.Reach b.params b.kindOf C (b.utxo, b.contracts))
    (hC : C.map (·.2) = (mainBlocks b.node).map b.txsOf)
    (hUL : ∀ B ∈ C, ∀ t ∈ B.2, t ∈ UL)
    (hcb : ∀ B ∈ C, ∀ t ∈ B.2.head?, t.ins = [])
    (hne : ∀ B ∈ C, ∀ t ∈ B.2.drop 1, t.ins ≠ []) : BaseSound UL b :=
  BytomModel.Lemmas.PoolLedgerBridge.baseSound_of_reach wf b C hreach hC hUL hcb hne

/-- non-vacuity: the state of `exEvs` after block b1 confirmed tA is reached on `[genesis, b1]` -/
def exChain : List BytomModel.Lemmas.Ledger.Blk := [(0, [exCb0]), (1, [exCb1, exTA])]
def exSt4 : NodeLedger.State := (exEvs.take 4).foldl baseStep exS0.base

example : BytomModel.Lemmas.Ledger.Reach exSt4.params exSt4.kindOf exChain (exSt4.utxo, exSt4.contracts) :=
  BytomModel.Lemmas.Ledger.Reach.reorg (P := []) (A := []) (B := exChain) (st := ([], []))
    BytomModel.Lemmas.Ledger.Reach.genesis (by unfold BytomModel.Lemmas.Ledger.WF BytomModel.Lemmas.Ledger.NodupKeys; decide)
    (by unfold BytomModel.Lemmas.Ledger.WF BytomModel.Lemmas.Ledger.NodupKeys; decide) (by intro pt h; cases h)
    (by intro k x y h; cases h) (by decide)
example : exChain.map (·.2) = (mainBlocks exSt4.node).map exSt4.txsOf ∧ (∀ B ∈ exChain, ∀ t ∈ B.2, t ∈ exUL) ∧
    (∀ B ∈ exChain, ∀ t ∈ B.2.head?, t.ins = []) ∧ (∀ B ∈ exChain, ∀ t ∈ B.2.drop 1, t.ins ≠ []) := by decide

/-! #### the hypothesis about the ledger is needed -/

/-- C23 (2) without the hypothesis that the layers below are sound: from ANY state with an empty
    pool, for any history of well-formed events -/
def c23_full : Prop :=
  ∀ (UL : List Ledger.Tx), WFL UL → ∀ (s0 : NodePool.State), s0.pool = TxPool.Pool.empty → (∀ t ∈ s0.txdefs, t ∈ UL) →
    ∀ (evs : List Ev), (∀ e ∈ evs, ∀ t, e = .submit t → t ∈ UL ∧ t.ins ≠ []) →
      ∀ id ∈ poolIds (run s0 evs), id ∉ confirmedIds (run s0 evs).base

/-- a base layer whose persisted utxo set still offers the input of a confirmed transaction
    (an unsound ledger): b1 with tA is on the main chain, o100 is still unspent -/
def exBad : NodePool.State :=
  { exS0 with base := { (baseStep exS0.base (.define exB1 [exCb1, exTA] none)) with
      node := { (baseStep exS0.base (.define exB1 [exCb1, exTA] none)).node with
        headers := [exB1, exG], index := [(0, 0), (1, 1)], best := 1 } } }

theorem c23_full_refuted : ¬ c23_full := by
  intro h
  have := h exUL (by decide) exBad rfl (by intro t h; cases h) [.submit exTA] (by
    intro e he t ht
    simp only [List.mem_singleton] at he
    subst he
    cases ht
    decide) 10 (by decide)
  exact this (by decide)

/-! ### (3) pool notifications are paired -/

open BytomModel.Lemmas.PoolKeys

/-- `tp.pool` is a map: in every reachable state its keys are pairwise distinct -/
theorem pool_keys_distinct (s0 : NodePool.State) (h0 : (poolIds s0).Nodup) (evs : List Ev) :
    (poolIds (run s0 evs)).Nodup := by
  induction evs generalizing s0 with
  | nil => exact h0
  | cons e es ih =>
    unfold run
    simp only [List.foldl_cons]
    exact ih _ (pk_stepEv (s := s0) h0 e)

/-- **C23 (3).** For every history (no hypothesis on the base layer) and every transaction id
    that is not pooled at the start, the notifications about that id alternate and start with an
    addition. -/
theorem events_paired (s0 : NodePool.State) (h0 : (poolIds s0).Nodup) (evs : List Ev) (id : Nat)
    (hid : id ∉ poolIds s0) : Alt true (idLog id (evLog s0 evs)) := by
  have := alt_evLog id evs s0 h0
  simpa [hid] using this

/-- … and for an id that is pooled at the start they start with its removal -/
theorem events_paired_pooled (s0 : NodePool.State) (h0 : (poolIds s0).Nodup) (evs : List Ev) (id : Nat)
    (hid : id ∈ poolIds s0) : Alt false (idLog id (evLog s0 evs)) := by
  have := alt_evLog id evs s0 h0
  simpa [hid] using this

/-- non-vacuity (and a test): tA and a conflicting spend tC of the same output are submitted,
    the proposer refuses and removes tC — its notifications are add, remove; tA's just add -/
def exTC : Ledger.Tx := { id := 12, ins := [100], outs := [{ id := 210, kind := .normal, amount := 44 }] }
example : idLog 12 (evLog exS0 [.submit exTA, .submit exTC, .propose]) = [true, false] ∧
    idLog 10 (evLog exS0 [.submit exTA, .submit exTC, .propose]) = [true] := by decide
example : (poolIds exS0).Nodup := by decide

end BytomModel.Props.C23
