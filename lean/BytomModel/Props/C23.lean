import BytomModel.Model.NodePool
namespace BytomModel.Props.C23
theorem placeholder : True := trivial
end BytomModel.Props.C23
