import BytomModel.Model.SecretConn
namespace BytomModel.Props.C32
open BytomModel.SecretConn
theorem stub : sealedFrameSize = 1042 := by decide
end BytomModel.Props.C32
