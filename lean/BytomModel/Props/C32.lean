/-
C32 — Encrypted peer connections deliver the exact byte stream.

Model: `BytomModel.SecretConn` (`Model/SecretConn.lean`), a mirror of
`p2p/connection/secret_connection.go`. The AEAD (`secretbox`) is a PARAMETER of every
theorem; what is assumed of it is `Good`: open∘seal = id under the same key and nonce, and
a box is 16 bytes longer than its plaintext. Everything else is proved for ALL lists of
writes (any sizes, any chunking) and ALL lists of read-buffer sizes.

`returned rs` is what the callers are told they received (`data[:n]` of every `Read`);
`copied rs` is what `Read` actually copied into the callers' buffers.

The model mirrors the code after the repair of F18 (commit a002565b). The property as
stated is now proved at full strength: `stream_exact` — what the callers are TOLD they
received is a prefix of the written stream and the whole stream once the connection is
drained, for every good AEAD, all writes and all read sizes. Before the repair the
`recvBuffer` branch of `Read` returned `n` = 0 and the statement was false (witness: the
peer writes 3 bytes, `Read(2)`, `Read(1)`); the witness is kept below as an `example` that
now satisfies the property, and the tie `Ties.C32.read_copies_tied` pins the repaired statement.
-/
import BytomModel.Lemmas.SecretConn
import BytomModel.Lemmas.SecretConnNonce

namespace BytomModel.Props.C32
open BytomModel.SecretConn BytomModel.Lemmas.SecretConn BytomModel.Lemmas.SecretConnNonce

/-- the receiving end after the peer wrote `datas` (in this order, any sizes) starting at
    nonce `n0`, nothing read yet -/
def receiverAfter (a : Aead) (key n0 : Bytes) (datas : List Bytes) (eof : Bool) : Receiver :=
  { buf := [], nonce := n0, wire := (writeMany a key { nonce := n0, connOpen := true } datas).2, eof := eof }

theorem receiverAfter_holds (a : Aead) (key n0 : Bytes) (datas : List Bytes) (eof : Bool) :
    Holds a key (receiverAfter a key n0 datas eof) (datas.flatMap chunks) :=
  ⟨(writeMany_open a key datas _ rfl).1, flatMap_chunks_sizes datas⟩

/-! ### invariants of a sequence of reads -/

theorem readMany_inv (a : Aead) (ha : Good a) (key : Bytes) (sizes : List Nat) :
    ∀ (r : Receiver) (cs : List Bytes), Holds a key r cs →
    ∃ k, k ≤ cs.length ∧ Holds a key (readMany (read a key) r sizes).1 (cs.drop k) ∧
      (readMany (read a key) r sizes).1.nonce = advance r.nonce k ∧
      copied (readMany (read a key) r sizes).2 ++
        ((readMany (read a key) r sizes).1.buf ++ (cs.drop k).flatten) = r.buf ++ cs.flatten := by
  induction sizes with
  | nil => intro r cs h; exact ⟨0, Nat.zero_le _, by simpa [readMany] using h, rfl, by simp [readMany, copied]⟩
  | cons l ls ih =>
    intro r cs h
    obtain ⟨cs', h', hcat, _, hfr⟩ := read_step a ha key r cs l h
    obtain ⟨k, hk, hh, hn, hc⟩ := ih (read a key r l).1 cs' h'
    simp only [readMany]
    rcases hfr with ⟨rfl, hnn⟩ | ⟨c, rfl, hnn⟩
    · refine ⟨k, hk, hh, by rw [hn, hnn], ?_⟩
      simp only [copied, List.map_cons, List.flatten_cons] at hc ⊢
      rw [List.append_assoc, hc, hcat]
    · refine ⟨k + 1, by simp; omega, by simpa using hh, by rw [hn, hnn]; rfl, ?_⟩
      simp only [copied, List.map_cons, List.flatten_cons, List.drop_succ_cons] at hc ⊢
      rw [List.append_assoc, hc, hcat]; simp

/-- every call reports exactly what it copied, so what the callers are told they received is
    what was copied into their buffers -/
theorem returned_eq_copied (a : Aead) (key : Bytes) (sizes : List Nat) : ∀ (r : Receiver),
    returned (readMany (read a key) r sizes).2 = copied (readMany (read a key) r sizes).2 := by
  induction sizes with
  | nil => intro r; simp [readMany, copied, returned]
  | cons l ls ih =>
    intro r
    simp only [readMany, copied, returned, List.map_cons, List.flatten_cons]
    have := ih (read a key r l).1
    simp only [copied, returned] at this
    rw [this, read_n, List.take_length]

/-! ### the stream theorems -/

/-- **stream_copied_exact** — for every good AEAD, every list of writes and every list of
read sizes: the bytes `Read` copies into the callers' buffers, in call order, followed by
what is still buffered and what is still on the wire, are exactly the bytes written: no
loss, no duplication, no reordering inside the connection. In particular the copied bytes
are a prefix of the written stream, and all of it once the connection is drained. -/
theorem stream_copied_exact (a : Aead) (ha : Good a) (key n0 : Bytes) (datas : List Bytes) (eof : Bool)
    (sizes : List Nat) :
    let out := readMany (read a key) (receiverAfter a key n0 datas eof) sizes
    copied out.2 <+: datas.flatten ∧
    (out.1.buf = [] → out.1.wire = [] → copied out.2 = datas.flatten) := by
  intro out
  obtain ⟨k, _, hh, _, hc⟩ := readMany_inv a ha key sizes _ _ (receiverAfter_holds a key n0 datas eof)
  simp only [receiverAfter, List.nil_append, flatMap_chunks_flatten] at hc
  refine ⟨⟨_, hc⟩, ?_⟩
  intro hb hw
  have hnil : ((datas.flatMap chunks).drop k).flatten = [] := by
    -- an empty wire carries no frames: every remaining chunk list encodes to ≥ 1042 bytes
    cases hd : (datas.flatMap chunks).drop k with
    | nil => rfl
    | cons c cs =>
      exfalso
      have hwire := hh.wire
      rw [hd] at hwire
      change out.1.wire = _ at hwire
      rw [hw] at hwire
      have := congrArg List.length hwire
      simp only [encode, List.length_nil, List.length_append, ha.length] at this
      simp only [overhead] at this
      omega
  change copied out.2 ++ (out.1.buf ++ _) = _ at hc
  rw [hb, hnil] at hc
  simpa using hc

/-- the property as stated, for one AEAD: what the callers are TOLD they received is a
    prefix of the written stream, and the whole stream once the connection is drained -/
def StreamExact (a : Aead) (rd : Receiver → Nat → Receiver × ReadRes) (key : Bytes) : Prop :=
  ∀ (n0 : Bytes) (datas : List Bytes) (eof : Bool) (sizes : List Nat),
    let out := readMany rd (receiverAfter a key n0 datas eof) sizes
    returned out.2 <+: datas.flatten ∧
    (out.1.buf = [] → out.1.wire = [] → returned out.2 = datas.flatten)

/-- **stream_exact** — the property at full strength, about the code's `Read`: for every good
AEAD and key, every list of writes (any sizes, any chunking) and every list of read-buffer
sizes (including 0 and sizes smaller than a buffered chunk), the bytes returned to the
callers, in call order, are a prefix of the bytes written — no loss, no duplication, no
reordering — and are all of them once the connection is drained. -/
theorem stream_exact (a : Aead) (ha : Good a) (key : Bytes) : StreamExact a (read a key) key := by
  intro n0 datas eof sizes out
  have e := returned_eq_copied a key sizes (receiverAfter a key n0 datas eof)
  obtain ⟨p1, p2⟩ := stream_copied_exact a ha key n0 datas eof sizes
  change returned out.2 = copied out.2 at e
  rw [e]
  exact ⟨p1, p2⟩

/-- the bytes returned so far plus what is buffered and still on the wire are the stream:
    nothing is ever lost inside the connection -/
theorem returned_sublist_stream (a : Aead) (ha : Good a) (key n0 : Bytes) (datas : List Bytes) (eof : Bool)
    (sizes : List Nat) :
    (returned (readMany (read a key) (receiverAfter a key n0 datas eof) sizes).2).Sublist datas.flatten :=
  ((stream_exact a ha key n0 datas eof sizes).1).sublist

/-- reads whose buffers hold a whole chunk never leave anything in `recvBuffer` (the
    "CONTRACT: data smaller than dataMaxSize is read atomically" of the source) -/
theorem big_reads_no_buffer (a : Aead) (ha : Good a) (key : Bytes) (sizes : List Nat)
    (hs : ∀ l ∈ sizes, dataMaxSize ≤ l) : ∀ (r : Receiver) (cs : List Bytes), Holds a key r cs → r.buf = [] →
    (readMany (read a key) r sizes).1.buf = [] := by
  induction sizes with
  | nil => intro r cs _ hb; simp [readMany, hb]
  | cons l ls ih =>
    intro r cs h hb
    obtain ⟨cs', h', _, hbuf, _⟩ := read_step a ha key r cs l h
    have hb' := hbuf hb (hs l (by simp))
    simpa [readMany] using ih (fun x hx => hs x (List.mem_cons_of_mem _ hx)) _ cs' h' hb'

/-- the former witness of F18 (peer writes `[1,2,3]`, reads of 2 then 1 byte), for EVERY good
    AEAD: the second read now returns the buffered byte and the stream is complete -/
example (a : Aead) (ha : Good a) (key : Bytes) :
    returned (readMany (read a key) (receiverAfter a key [] [[1, 2, 3]] true) [2, 1]).2 = [1, 2, 3] := by
  have hch : chunks [1, 2, 3] = [[1, 2, 3]] := by decide
  have hw : (writeMany a key { nonce := [], connOpen := true } [[1, 2, 3]]).2 = encode a key [] [[1, 2, 3]] := by
    rw [(writeMany_open a key [[1, 2, 3]] _ rfl).1]; simp [hch]
  have e1 := readFrame_cons a ha key (receiverAfter a key [] [[1, 2, 3]] true) 2 [1, 2, 3] [] (by decide)
    (by simp only [receiverAfter]; exact hw)
  have r1 : read a key (receiverAfter a key [] [[1, 2, 3]] true) 2 =
      ({ buf := [3], nonce := incr2Nonce [], wire := [], eof := true }, { n := 2, err := .none, written := [1, 2] }) := by
    simp only [SecretConn.read, receiverAfter, ne_eq, not_true_eq_false, if_false]
    simpa [receiverAfter, encode] using e1
  have r2 : read a key { buf := [3], nonce := incr2Nonce [], wire := [], eof := true } 1 =
      ({ buf := [], nonce := incr2Nonce [], wire := [], eof := true }, { n := 1, err := .none, written := [3] }) := by
    simp [SecretConn.read]
  simp [readMany, r1, r2, returned]

/-- **nonces_in_step** — after any sequence of reads the receiver's nonce is the sender's
start nonce advanced by exactly the number of frames consumed, i.e. the nonce under which the
sender sealed the next frame; and the sender's nonce after its writes is the start nonce
advanced by the number of frames written. -/
theorem nonces_in_step (a : Aead) (ha : Good a) (key n0 : Bytes) (datas : List Bytes) (eof : Bool)
    (sizes : List Nat) :
    ∃ k, k ≤ (datas.flatMap chunks).length ∧
      (readMany (read a key) (receiverAfter a key n0 datas eof) sizes).1.nonce = advance n0 k ∧
      (readMany (read a key) (receiverAfter a key n0 datas eof) sizes).1.wire =
        encode a key (advance n0 k) ((datas.flatMap chunks).drop k) ∧
      (writeMany a key { nonce := n0, connOpen := true } datas).1.nonce = advance n0 (datas.flatMap chunks).length := by
  obtain ⟨k, hk, hh, hn, _⟩ := readMany_inv a ha key sizes _ _ (receiverAfter_holds a key n0 datas eof)
  refine ⟨k, hk, hn, ?_, (writeMany_open a key datas _ rfl).2⟩
  have := hh.wire
  rw [hn] at this
  exact this

/-- **corruption_detected** — if the next sealed frame on the wire does not open under the
receiver's key and nonce (which is what any modification of a sealed frame causes, by the
authenticity of the AEAD), `Read` returns the decrypt error, delivers nothing, and keeps its
nonce — so the stream delivered so far stays a prefix of what was sent. -/
theorem corruption_detected (a : Aead) (key : Bytes) (r : Receiver) (len : Nat)
    (hb : r.buf = []) (hlen : sealedFrameSize ≤ r.wire.length)
    (hbad : a.dec key r.nonce (r.wire.take sealedFrameSize) = none) :
    (read a key r len).2 = { n := 0, err := .decrypt, written := [] } ∧
    (read a key r len).1.nonce = r.nonce ∧ (read a key r len).1.buf = [] := by
  have : ¬ r.wire.length < sealedFrameSize := by omega
  simp [SecretConn.read, hb, readFrame, this, hbad]

/-! ### nonces: in step, never reused, the two directions disjoint -/

/-- **nonce_step_value** — `incr2Nonce` adds 2 to the big-endian value of the nonce, modulo
256^len (2^192 for the 24-byte nonces), carries included. -/
theorem nonce_step_value (n : Bytes) : val (incr2Nonce n) = (val n + 2) % 256 ^ n.length :=
  val_incr2Nonce n

/-- **no_nonce_reuse** — within one direction the i-th and j-th frame get the same nonce
only if `2i ≡ 2j (mod 256^len)`; so the first 2^191 frames of a 24-byte-nonce connection
all have different nonces. -/
theorem no_nonce_reuse (n : Bytes) (i j : Nat) (hlen : n.length = nonceSize)
    (hi : i < 2 ^ 191) (hj : j < 2 ^ 191) (h : advance n i = advance n j) : i = j := by
  have h' := (advance_eq_iff n i j (by rw [hlen]; decide)).mp h
  rw [hlen] at h'
  have e : (256 : Nat) ^ nonceSize = 2 ^ 192 := by decide
  rw [e] at h'
  have e2 : (2 : Nat) ^ 192 = 2 * 2 ^ 191 := by decide
  rw [Nat.mod_eq_of_lt (by omega), Nat.mod_eq_of_lt (by omega)] at h'
  omega

/-- **directions_disjoint** — the two directions of a connection start from `nonce1` and
`nonce1` with the lowest bit of its last byte flipped; every later nonce keeps the parity of
its direction's start value, so no nonce is ever used by both directions (under the one
shared key), however many frames flow. -/
theorem directions_disjoint (n1 : Bytes) (h : n1 ≠ []) (i j : Nat) :
    advance n1 i ≠ advance (flipLast n1) j := by
  intro e
  have hl : 0 < n1.length := List.length_pos_iff.mpr h
  have p1 := val_advance_parity n1 i hl
  have p2 := val_advance_parity (flipLast n1) j (by rw [flipLast_length]; exact hl)
  rw [e, p2] at p1
  exact val_flipLast_parity n1 h p1

/-! ### the handshake -/

/-- `sort32` yields the same ordered pair on both sides -/
theorem sort32_symmetric (x y : Bytes) : sort32 x y = sort32 y x := by
  unfold sort32
  by_cases hxy : x = y
  · subst hxy; rfl
  · rcases lexLt_total x y hxy with h | h
    · simp [h, lexLt_asymm x y h]
    · simp [h, lexLt_asymm y x h]

/-- **challenge_symmetric** — both ends derive the same challenge from the two ephemeral keys -/
theorem challenge_symmetric (h : Hashes) (loc rem : Bytes) : genChallenge h loc rem = genChallenge h rem loc := by
  simp only [genChallenge, sort32_symmetric loc rem]

/-- **nonces_cross** — with different ephemeral keys, what one end uses to send is what the
other end uses to receive, in both directions, and an end never sends and receives under
the same nonce. -/
theorem nonces_cross (h : Hashes) (loc rem : Bytes) (hne : loc ≠ rem)
    (hh : h.hash24 ((sort32 loc rem).1 ++ (sort32 loc rem).2) ≠ []) :
    (genNonces h loc rem).1 = (genNonces h rem loc).2 ∧
    (genNonces h loc rem).2 = (genNonces h rem loc).1 ∧
    (genNonces h loc rem).1 ≠ (genNonces h loc rem).2 := by
  have hs := sort32_symmetric loc rem
  have hflip : ∀ n : Bytes, n ≠ [] → flipLast n ≠ n := by
    intro n hn e
    have := val_flipLast_parity n hn
    rw [e] at this
    exact this rfl
  simp only [genNonces, ← hs]
  rcases lexLt_total loc rem hne with hl | hl
  · have hl' := lexLt_asymm loc rem hl
    simp only [hl, hl', if_true, Bool.false_eq_true, if_false]
    exact ⟨trivial, trivial, fun e => hflip _ hh e.symm⟩
  · have hl' := lexLt_asymm rem loc hl
    simp only [hl, hl', if_true, Bool.false_eq_true, if_false]
    exact ⟨trivial, trivial, hflip _ hh⟩

/-- when a peer reflects our own ephemeral key, both ends pick the SAME (recv, send) pair, so
    nothing the peer seals with its send nonce opens under our receive nonce: the handshake
    cannot complete (safe failure) -/
theorem reflection_mismatch (h : Hashes) (x : Bytes) (hh : h.hash24 (x ++ x) ≠ []) :
    (genNonces h x x).1 ≠ (genNonces h x x).2 := by
  have hflip : flipLast (h.hash24 (x ++ x)) ≠ h.hash24 (x ++ x) := by
    intro e
    have := val_flipLast_parity _ hh
    rw [e] at this
    exact this rfl
  simp only [genNonces, sort32, lexLt_irrefl, Bool.false_eq_true, if_false]
  exact hflip

/-- **auth_binds_key** — `MakeSecretConnection` sets `remPubKey` only to a key whose
signature on THIS connection's challenge verified; with a sound signature scheme
(`hsound`: a verifying signature on `m` under `k` was made by the holder of `k`'s private
key, `Signed k m`) the peer holds the private key of the `RemotePubKey` it is given, and
signed the challenge derived from both ephemeral keys of this very connection. -/
theorem auth_binds_key (verify : Bytes → Bytes → Bytes → Bool) (Signed : Bytes → Bytes → Prop)
    (hsound : ∀ k m s, verify k m s = true → Signed k m)
    (h : Hashes) (loc rem remKey remSig k : Bytes)
    (hfin : finishHandshake verify (genChallenge h loc rem) remKey remSig = some k) :
    k = remKey ∧ Signed k (genChallenge h loc rem) ∧ Signed k (genChallenge h rem loc) := by
  unfold finishHandshake at hfin
  split at hfin
  · rename_i hv
    cases hfin
    exact ⟨rfl, hsound _ _ _ hv, challenge_symmetric h loc rem ▸ hsound _ _ _ hv⟩
  · cases hfin

/-- a key whose signature does not verify is never accepted -/
theorem auth_rejects (verify : Bytes → Bytes → Bytes → Bool) (ch remKey remSig : Bytes)
    (hbad : verify remKey ch remSig = false) : finishHandshake verify ch remKey remSig = none := by
  simp [finishHandshake, hbad]

/-! ### the hypotheses are satisfiable -/

/-- the toy AEAD used by the driver is `Good` -/
theorem toy_good : Good toy := by
  refine ⟨?_, ?_⟩
  · intro k n m
    have hl : (toyTag k n m).length = overhead := by simp [toyTag, overhead]
    simp only [toy]
    have h1 : ¬ (toyTag k n m ++ m).length < overhead := by rw [List.length_append, hl]; omega
    have h2 : overhead ≤ (toyTag k n m).length + m.length := by rw [hl]; omega
    simp [h2, List.take_left' hl, List.drop_left' hl]
  · intro k n m
    simp [toy, toyTag, overhead]; omega

example : ∃ a, Good a := ⟨toy, toy_good⟩
example : (List.replicate 24 (0 : UInt8)).length = nonceSize := by decide
/-- test: a carry across three bytes -/
example : incr2Nonce [0, 0xff, 0xff, 0xfe] = [1, 0, 0, 0] ∧ incr2Nonce [0xff, 0xff] = [0, 1] := by decide
/-- test: a hash function with 24-byte output satisfies the non-emptiness hypothesis of `nonces_cross` -/
example : (⟨fun _ => List.replicate 24 7, fun _ => []⟩ : Hashes).hash24 [] ≠ [] := by decide
example : StreamExact toy (read toy []) [] := stream_exact toy toy_good []

end BytomModel.Props.C32
