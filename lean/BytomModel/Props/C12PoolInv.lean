import BytomModel.Props.C12Pool
/-
C12, capacity-limited orphan pool: the waiting index is EXACTLY the grouping of the pool by
parent (arrival order, no empty and no dangling entry) and ids are unique - in every state
reachable by any sequence of Add (with LRU eviction) / Delete / expiry passes.
-/
namespace BytomModel.Props.C12Pool
open BytomModel.Model.OrphanPool

def IdsNodup (os : List Orphan) : Prop := (os.map (·.id)).Nodup

/-- the pool invariant -/
def Inv (s : Pool) : Prop := IdsNodup s.orphans ∧ ∀ p, Idx.get s.idx p = group s.orphans p

theorem id_inj (os : List Orphan) (hn : IdsNodup os) :
    ∀ x ∈ os, ∀ y ∈ os, x.id = y.id → x = y := by
  induction os with
  | nil => intro x hx; cases hx
  | cons a t ih =>
    unfold IdsNodup at hn ih
    simp only [List.map_cons, List.nodup_cons] at hn
    intro x hx y hy hxy
    rcases List.mem_cons.mp hx with hxa | hx' <;> rcases List.mem_cons.mp hy with hya | hy'
    · rw [hxa, hya]
    · subst hxa; exact absurd (List.mem_map.mpr ⟨y, hy', hxy.symm⟩) hn.1
    · subst hya; exact absurd (List.mem_map.mpr ⟨x, hx', hxy⟩) hn.1
    · exact ih hn.2 x hx' y hy' hxy

theorem nodup_filter (os : List Orphan) (f : Orphan → Bool) (hn : IdsNodup os) :
    IdsNodup (os.filter f) :=
  List.Nodup.sublist (List.Sublist.map _ List.filter_sublist) hn

theorem group_filter_ne (os : List Orphan) (o : Orphan) (ho : o ∈ os) (hn : IdsNodup os)
    (q : Nat) (hq : q ≠ o.parent) :
    group (os.filter (fun x => x.id != o.id)) q = group os q := by
  unfold group
  have : (os.filter (fun x => x.id != o.id)).filter (fun x => x.parent == q)
       = os.filter (fun x => x.parent == q) := by
    rw [List.filter_filter]
    apply List.filter_congr
    intro x hx
    by_cases hxo : x.id = o.id
    · have := id_inj os hn x hx o ho hxo; subst this
      have : ¬ x.parent = q := fun e => hq e.symm
      simp [this]
    · simp [hxo]
  rw [this]

theorem group_filter_eq (os : List Orphan) (o : Orphan) (hn : IdsNodup os) :
    ((os.filter (fun x => x.id != o.id)).filter (fun x => x.parent == o.parent)).map (·.id)
      = ((os.filter (fun x => x.parent == o.parent)).map (·.id)).erase o.id := by
  have hL : ((os.filter (fun x => x.parent == o.parent)).map (·.id)).Nodup := nodup_filter os _ hn
  rw [hL.erase_eq_filter o.id, List.filter_map, List.filter_filter, List.filter_filter]
  congr 1
  apply List.filter_congr
  intro x _
  simp [Function.comp, Bool.and_comm]

theorem delete_inv (s : Pool) (h : Nat) (hi : Inv s) : Inv (s.delete h) := by
  obtain ⟨hn, hidx⟩ := hi
  refine ⟨by rw [delete_orphans]; exact nodup_filter _ _ hn, ?_⟩
  intro q
  rw [delete_orphans]
  cases hf : s.find h with
  | none =>
    have : s.delete h = s := by unfold Pool.delete; simp [hf]
    rw [this, hidx q]
    have : s.orphans.filter (fun x => x.id != h) = s.orphans := by
      simp only [Pool.find, List.find?_eq_none] at hf
      apply List.filter_eq_self.mpr
      intro a ha; have := hf a ha; simpa using this
    rw [this]
  | some o =>
    have hmem : o ∈ s.orphans := List.mem_of_find?_eq_some hf
    have hid : o.id = h := by have := List.find?_some hf; simpa using this
    subst hid
    have hL := hidx o.parent
    have hoL : o.id ∈ (s.orphans.filter (fun x => x.parent == o.parent)).map (·.id) :=
      List.mem_map.mpr ⟨o, List.mem_filter.mpr ⟨hmem, by simp⟩, rfl⟩
    have hgrp : group s.orphans o.parent = some ((s.orphans.filter (fun x => x.parent == o.parent)).map (·.id)) := by
      unfold group
      have : ((s.orphans.filter (fun x => x.parent == o.parent)).map (·.id)).isEmpty = false := by
        cases hc : (s.orphans.filter (fun x => x.parent == o.parent)).map (·.id) with
        | nil => rw [hc] at hoL; cases hoL
        | cons a t => rfl
      simp only [this, Bool.false_eq_true, if_false]
    rw [hgrp] at hL
    by_cases hq : q = o.parent
    · subst hq
      unfold Pool.delete
      simp only [hf, hL]
      have hE := group_filter_eq s.orphans o hn
      generalize hLdef : (s.orphans.filter (fun x => x.parent == o.parent)).map (·.id) = L at hoL hE hL
      have hLn : L.Nodup := by rw [← hLdef]; exact nodup_filter s.orphans _ hn
      by_cases h1 : L.length = 1
      · simp only [h1, beq_self_eq_true, if_true, get_erase, if_true]
        unfold group
        rw [hE]
        have : L.erase o.id = [] := by
          match L, h1, hoL with
          | [a], _, hm => simp at hm; subst hm; simp
        simp [this]
      · have hc : L.contains o.id = true := by simpa using hoL
        have h1' : (L.length == 1) = false := by simpa using h1
        simp only [h1', Bool.false_eq_true, if_false, hc, if_true, get_set]
        unfold group
        rw [hE]
        have hlen : (L.erase o.id).length = L.length - 1 := List.length_erase_of_mem hoL
        have hpos : 0 < L.length := List.length_pos_of_mem hoL
        have : (L.erase o.id).isEmpty = false := by
          cases hc2 : L.erase o.id with
          | nil => rw [hc2] at hlen; simp at hlen; omega
          | cons a t => rfl
        simp [this]
    · rw [group_filter_ne s.orphans o hmem hn q hq, ← hidx q]
      unfold Pool.delete
      simp only [hf, hL]
      split
      · simp [get_erase, hq]
      · split
        · simp [get_set, hq]
        · rfl

theorem deleteLRU_inv (s : Pool) (hi : Inv s) : Inv s.deleteLRU := by
  unfold Pool.deleteLRU; split
  · exact hi
  · exact delete_inv _ _ hi

theorem deleteLRU_subset (s : Pool) : ∀ x ∈ s.deleteLRU.orphans, x ∈ s.orphans := by
  unfold Pool.deleteLRU; split
  · intro x hx; exact hx
  · intro x hx; rw [delete_orphans] at hx; exact (List.mem_filter.mp hx).1

theorem add_inv_aux (s0 : Pool) (h p : Nat) (hi0 : Inv s0) :
    Inv (if (s0.find h).isSome then s0 else
      let s1 := if s0.orphans.length ≥ s0.limit then s0.deleteLRU else s0
      { s1 with orphans := s1.orphans ++ [{ id := h, parent := p, exp := s1.clock }],
                idx := Idx.set s1.idx p ((Idx.get s1.idx p).getD [] ++ [h]) }) := by
  split
  · exact hi0
  · rename_i hnf
    have hnone : s0.find h = none := by
      cases hc : s0.find h with
      | none => rfl
      | some o => simp [hc] at hnf
    have hi1 : Inv (if s0.orphans.length ≥ s0.limit then s0.deleteLRU else s0) := by
      split
      · exact deleteLRU_inv _ hi0
      · exact hi0
    have hsub : ∀ x ∈ (if s0.orphans.length ≥ s0.limit then s0.deleteLRU else s0).orphans, x ∈ s0.orphans := by
      split
      · exact deleteLRU_subset s0
      · intro x hx; exact hx
    generalize (if s0.orphans.length ≥ s0.limit then s0.deleteLRU else s0) = s1 at hi1 hsub ⊢
    obtain ⟨hn1, hidx1⟩ := hi1
    have hfresh : h ∉ s1.orphans.map (·.id) := by
      intro hm
      obtain ⟨x, hx, hxid⟩ := List.mem_map.mp hm
      simp only [Pool.find, List.find?_eq_none] at hnone
      have := hnone x (hsub x hx)
      simp [hxid] at this
    refine ⟨?_, ?_⟩
    · unfold IdsNodup at hn1 ⊢
      simp only [List.map_append, List.map_cons, List.map_nil]
      rw [List.nodup_append]
      refine ⟨hn1, by simp, ?_⟩
      intro a ha b hb
      simp at hb; subst hb
      intro e; subst e; exact hfresh ha
    · intro q
      simp only [get_set]
      unfold group
      simp only [List.filter_append, List.map_append]
      by_cases hq : q = p
      · subst hq
        simp only [if_true]
        have := hidx1 q
        unfold group at this
        cases hc : (s1.orphans.filter (fun o => o.parent == q)).map (·.id) with
        | nil => simp only [hc] at this; simp at this; simp [this, hc]
        | cons a t => simp only [hc] at this; simp at this; simp [this, hc]
      · have hq' : ¬ p = q := fun e => hq e.symm
        simp only [hq, if_false]
        rw [hidx1 q]
        unfold group
        simp [List.filter_cons, hq']

theorem add_inv (s : Pool) (h p : Nat) (hi : Inv s) : Inv (s.add h p) :=
  add_inv_aux { s with clock := s.clock + 1 } h p hi

theorem expire_inv (s : Pool) (k : Nat) (hi : Inv s) : Inv (s.expire k) := by
  unfold Pool.expire
  generalize s.orphans.filter (fun o => o.exp ≤ k) = l
  induction l generalizing s with
  | nil => exact hi
  | cons o l ih => simp only [List.foldl_cons]; exact ih _ (delete_inv _ _ hi)

theorem init_inv (limit : Nat) : Inv (Pool.init limit) := by
  refine ⟨by simp [IdsNodup, Pool.init], ?_⟩
  intro p; simp [Pool.init, Idx.get, group]

/-- **Index invariant, every reachable state**: after ANY sequence of Add (with LRU
    eviction) / Delete / expiry passes, ids are unique and the waiting list recorded under a
    parent is exactly the pool's members with that parent, in arrival order; a parent with no
    waiting member has no entry. -/
theorem reachable_inv (limit : Nat) (ops : List Op) : Inv ((Pool.init limit).run ops) := by
  suffices ∀ s : Pool, Inv s → Inv (s.run ops) from this _ (init_inv limit)
  induction ops with
  | nil => intro s h; exact h
  | cons op ops ih =>
    intro s h
    simp only [Pool.run, List.foldl_cons]
    apply ih
    cases op with
    | add h' p => exact add_inv s h' p h
    | del h' => exact delete_inv s h' h
    | expire k => exact expire_inv s k h

/-- consequence for C12's "no orphan is left behind": every pool member is listed under its
    parent, and every listed id is a pool member with that parent -/
theorem reachable_index_complete (limit : Nat) (ops : List Op) (o : Orphan)
    (ho : o ∈ ((Pool.init limit).run ops).orphans) :
    ∃ l, Idx.get ((Pool.init limit).run ops).idx o.parent = some l ∧ o.id ∈ l := by
  have hinv := (reachable_inv limit ops).2 o.parent
  have hoL : o.id ∈ (((Pool.init limit).run ops).orphans.filter (fun x => x.parent == o.parent)).map (·.id) :=
    List.mem_map.mpr ⟨o, List.mem_filter.mpr ⟨ho, by simp⟩, rfl⟩
  refine ⟨_, ?_, hoL⟩
  rw [hinv]; unfold group
  have : ((((Pool.init limit).run ops).orphans.filter (fun x => x.parent == o.parent)).map (·.id)).isEmpty = false := by
    cases hc : (((Pool.init limit).run ops).orphans.filter (fun x => x.parent == o.parent)).map (·.id) with
    | nil => rw [hc] at hoL; cases hoL
    | cons a t => rfl
  simp only [this, Bool.false_eq_true, if_false]

theorem foldl_delete_orphans (l : List Orphan) (s : Pool) :
    (l.foldl (fun acc o => acc.delete o.id) s).orphans
      = s.orphans.filter (fun x => !(l.map (·.id)).contains x.id) := by
  induction l generalizing s with
  | nil => simp; exact (List.filter_eq_self.mpr (fun _ _ => rfl)).symm
  | cons o l ih =>
    simp only [List.foldl_cons]
    rw [ih, delete_orphans, List.filter_filter]
    apply List.filter_congr
    intro x _
    by_cases hxo : x.id = o.id <;> simp [hxo, Bool.and_comm]

/-- **Expiry is exact**: in a reachable state an expiry pass at reading `k` removes exactly the
    orphans that arrived at or before `k`, keeps every later one, and keeps their order. -/
theorem expire_exact (s : Pool) (k : Nat) (hi : Inv s) :
    (s.expire k).orphans = s.orphans.filter (fun x => decide (k < x.exp)) := by
  unfold Pool.expire
  rw [foldl_delete_orphans]
  apply List.filter_congr
  intro x hx
  by_cases hk : k < x.exp
  · have : ¬ (x.id ∈ (s.orphans.filter (fun o => decide (o.exp ≤ k))).map (·.id)) := by
      intro hm
      obtain ⟨y, hy, hyid⟩ := List.mem_map.mp hm
      have hy' := List.mem_filter.mp hy
      have := id_inj s.orphans hi.1 y hy'.1 x hx hyid
      subst this
      have := hy'.2
      simp at this; omega
    simp [hk, this]
  · have : x.id ∈ (s.orphans.filter (fun o => decide (o.exp ≤ k))).map (·.id) :=
      List.mem_map.mpr ⟨x, List.mem_filter.mpr ⟨hx, by simp; omega⟩, rfl⟩
    simp [hk, this]

/-- **Delete undoes Add**: taking a freshly added block out again (what `saveBlock` does once
    the block is connected) restores the pool and every index lookup exactly - the pool keeps
    no trace of a block that has left it. -/
theorem delete_add_cancel (s : Pool) (h p : Nat) (hi : Inv s)
    (hnew : s.find h = none) (hroom : s.orphans.length < s.limit) :
    ((s.add h p).delete h).orphans = s.orphans ∧
    ∀ q, Idx.get ((s.add h p).delete h).idx q = Idx.get s.idx q := by
  have horph : ((s.add h p).delete h).orphans = s.orphans := by
    rw [delete_orphans, add_room_keeps_all s h p hnew hroom, List.filter_append]
    have h1 : s.orphans.filter (fun x => x.id != h) = s.orphans := by
      simp only [Pool.find, List.find?_eq_none] at hnew
      apply List.filter_eq_self.mpr
      intro a ha; have := hnew a ha; simpa using this
    rw [h1]; simp
  refine ⟨horph, ?_⟩
  intro q
  have hinv := delete_inv _ h (add_inv s h p hi)
  rw [hinv.2 q, horph, hi.2 q]

theorem filter_ne_length (os : List Orphan) (hn : IdsNodup os) (m : Orphan) (hm : m ∈ os) :
    (os.filter (fun x => x.id != m.id)).length + 1 = os.length := by
  induction os with
  | nil => cases hm
  | cons a t ih =>
    unfold IdsNodup at hn ih
    simp only [List.map_cons, List.nodup_cons] at hn
    by_cases ha : a.id = m.id
    · have ht : t.filter (fun x => x.id != m.id) = t := by
        apply List.filter_eq_self.mpr
        intro x hx
        have : x.id ≠ m.id := by
          intro e; exact hn.1 (List.mem_map.mpr ⟨x, hx, e.trans ha.symm⟩)
        simpa using this
      simp [List.filter_cons, ha, ht]
    · have hmt : m ∈ t := by
        rcases List.mem_cons.mp hm with h | h
        · exact absurd (by rw [h]) ha
        · exact h
      have := ih hn.2 hmt
      simp [List.filter_cons, ha]; omega

/-- **Eviction removes exactly one orphan**: an Add of a new block into a reachable full pool
    leaves the pool exactly full. -/
theorem add_full_keeps_size (s : Pool) (h p : Nat) (m : Orphan) (hi : Inv s)
    (hnew : s.find h = none) (hfull : s.orphans.length = s.limit) (hm : minExp s.orphans = some m) :
    (s.add h p).orphans.length = s.limit := by
  have := (add_full_evicts_oldest s h p m hnew (by omega) hm).1
  rw [this, List.length_append]
  have := filter_ne_length s.orphans hi.1 m (minExp_mem _ _ hm)
  simp; omega

example : Inv ((Pool.init 2).run [.add 1 7, .add 2 7, .add 3 1, .expire 2]) := reachable_inv _ _

-- hypotheses of delete_add_cancel are satisfiable on a non-trivial pool (a test)
example : let s := (Pool.init 3).run [.add 1 7, .add 2 1]
    s.find 5 = none ∧ s.orphans.length < s.limit := by decide

end BytomModel.Props.C12Pool
