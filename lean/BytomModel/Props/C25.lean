/-
C25 — Wallet never reports unspendable outputs as mature.

`usable u H` is the utxoKeeper's maturity filter (`ValidHeight ≤ currentHeight`);
`spendableAt P kind created h` is `UtxoViewpoint.applySpendUtxo`'s rule for an unspent entry
of consensus type `kind` created at height `created`, spent in a block at height `h`.
`gKind`/`gHeight` of a wallet UTXO are ghost fields: the consensus entry of that output.
-/
import BytomModel.Model.Wallet
import BytomModel.Lemmas.Wallet
import BytomModel.Props.C24
import BytomModel.Lemmas.Project
import BytomModel.Model.Keeper
import BytomModel.Lemmas.Keeper

set_option linter.unusedSimpArgs false

namespace BytomModel.Props.C25
open BytomModel.Model.Wallet BytomModel.Lemmas.Wallet BytomModel.Lemmas.Project BytomModel.Props.C24

/-- assumptions on the consensus parameters under which freshly scanned outputs are safe -/
structure ParamsOK (P : Params) : Prop where
  /-- the vote lock never grows with height (holds for the constant tables of testnet/solonet) -/
  mono : ∀ a b, a ≤ b → P.pending b ≤ P.pending a
  /-- a vote output inside a coinbase transaction is a *coinbase* entry for consensus -/
  cbv : ∀ h, P.cbPending ≤ P.pending h + 1

/-- the UTXO is what `txOutToUtxos` + `filterAccountUtxo` produce for some output of a
    transaction in a block at some height (not restored by a detach) -/
def IsFresh (P : Params) (u : Utxo) : Prop :=
  ∃ cb h o u0, outUtxo P cb h o = some u0 ∧ owned P u0 = some u

/-- `fresh_usable_implies_spendable`: the ValidHeight assigned on attach is safe — an output
    the wallet reports usable at height `H` can be spent by consensus at height `H + 1`. -/
theorem fresh_usable_implies_spendable (P : Params) (hP : ParamsOK P) (u : Utxo) (hf : IsFresh P u) (H : Nat)
    (hu : usable u H = true) : spendableAt P u.gKind u.gHeight (H + 1) = true := by
  obtain ⟨cb, h, o, u0, ho, hown⟩ := hf
  unfold owned at hown
  split at hown
  · simp only [Option.some.injEq] at hown
    subst hown
    unfold usable at hu
    simp only [decide_eq_true_eq] at hu
    unfold outUtxo at ho
    by_cases k0 : o.kind = 0
    · simp only [k0, beq_self_eq_true, if_true] at ho
      split at ho
      · cases ho
      · simp only [Option.some.injEq] at ho
        subst ho
        cases cb
        · simp [spendableAt]
        · simp only [if_true] at hu ⊢
          simp [spendableAt]; omega
    · have e0 : (o.kind == 0) = false := by simpa using k0
      simp only [e0, Bool.false_eq_true, if_false] at ho
      by_cases k1 : o.kind = 1
      · simp only [k1, beq_self_eq_true, if_true, Option.some.injEq] at ho
        subst ho
        simp only at hu
        cases cb
        · have := hP.mono h (H + 1) (by omega)
          simp [spendableAt]; omega
        · have := hP.cbv h
          simp [spendableAt]; omega
      · have e1 : (o.kind == 1) = false := by simpa using k1
        simp [e1] at ho
  · cases hown

/-- outputs of normal consensus type are never locked -/
theorem normal_always_spendable (P : Params) (created h : Nat) : spendableAt P 0 created h = true := by
  simp [spendableAt]

/-! ### along every walk a wallet UTXO is either fresh or restored with ValidHeight 0 -/

def FreshOrZero (P : Params) (db : DB) : Prop :=
  ∀ id u, dbGet id db = some u → IsFresh P u ∨ u.validHeight = 0

theorem effect_some_cases (id : Nat) (ops : List DbOp) (x : Option Utxo) (u : Utxo)
    (h : effect id ops x = some u) : DbOp.put u ∈ ops ∨ x = some u := by
  unfold effect at h
  induction ops generalizing x with
  | nil => right; exact h
  | cons op ops ih =>
    simp only [List.foldl_cons] at h
    rcases ih _ h with hm | hx
    · left; exact List.mem_cons_of_mem _ hm
    · cases op with
      | del k =>
        simp only [eff1] at hx
        split at hx
        · cases hx
        · right; exact hx
      | put v =>
        simp only [eff1] at hx
        split at hx
        · simp only [Option.some.injEq] at hx; subst hx; left; exact List.mem_cons_self
        · right; exact hx

theorem freshOrZero_attachTx (P : Params) (h : Nat) (t : Tx) (db : DB) (hdb : FreshOrZero P db) :
    FreshOrZero P (attachTx P h db t) := by
  intro id u hu
  unfold attachTx at hu
  rw [get_applyOps] at hu
  rcases effect_some_cases id _ _ u hu with hm | hx
  · left
    unfold attachOps at hm
    simp only [List.mem_append, List.mem_filterMap, List.mem_map, DbOp.put.injEq] at hm
    rcases hm with ⟨v, _, hv⟩ | ⟨u2, ⟨u0, ⟨o, _, ho⟩, hown⟩, rfl⟩
    · split at hv <;> cases hv
    · exact ⟨t.coinbase, h, o, u0, ho, hown⟩
  · exact hdb id u hx

theorem inUtxo_vh {i : In} {u : Utxo} (h : inUtxo i = some u) : u.validHeight = 0 := by
  unfold inUtxo at h
  split at h
  · simp only [Option.some.injEq] at h; subst h; rfl
  · split at h
    · split at h
      · simp only [Option.some.injEq] at h; subst h; rfl
      · cases h
    · cases h

theorem owned_vh {P : Params} {u u' : Utxo} (h : owned P u = some u') : u'.validHeight = u.validHeight := by
  unfold owned at h
  split at h
  · simp only [Option.some.injEq] at h; subst h; rfl
  · cases h

theorem freshOrZero_detachTx (P : Params) (t : Tx) (db : DB) (hdb : FreshOrZero P db) :
    FreshOrZero P (detachTx P db t) := by
  intro id u hu
  unfold detachTx at hu
  rw [get_applyOps] at hu
  rcases effect_some_cases id _ _ u hu with hm | hx
  · right
    unfold detachOps at hm
    simp only [List.mem_append, List.mem_filterMap, List.mem_map, DbOp.put.injEq] at hm
    rcases hm with ⟨v, _, hv⟩ | ⟨u2, ⟨u0, ⟨i, _, hi⟩, hown⟩, rfl⟩
    · split at hv <;> cases hv
    · rw [owned_vh hown]; exact inUtxo_vh hi
  · exact hdb id u hx

theorem freshOrZero_attach (P : Params) (b : Block) (db : DB) (hdb : FreshOrZero P db) :
    FreshOrZero P (attach P b db) := by
  unfold attach
  generalize b.txs = txs
  induction txs generalizing db with
  | nil => exact hdb
  | cons t r ih => simp only [List.foldl_cons]; exact ih _ (freshOrZero_attachTx P b.height t db hdb)

theorem freshOrZero_detach (P : Params) (b : Block) (db : DB) (hdb : FreshOrZero P db) :
    FreshOrZero P (detach P b db) := by
  unfold detach
  generalize b.txs.reverse = txs
  induction txs generalizing db with
  | nil => exact hdb
  | cons t r ih => simp only [List.foldl_cons]; exact ih _ (freshOrZero_detachTx P t db hdb)

theorem freshOrZero_walk (P : Params) (steps : List Step) (s : List Block × DB) (hs : FreshOrZero P s.2) :
    FreshOrZero P (walk P steps s).2 := by
  unfold walk
  induction steps generalizing s with
  | nil => exact hs
  | cons st rest ih =>
    simp only [List.foldl_cons]
    apply ih
    cases st with
    | push b => exact freshOrZero_attach P b s.2 hs
    | pop =>
      simp only [stepW]
      cases hc : s.1 with
      | nil => exact hs
      | cons b c => exact freshOrZero_detach P b s.2 hs

/-- `usable_implies_spendable_partial`: after ANY walk of attaches and detaches from the empty
    wallet, a wallet UTXO reported usable at height `H` is spendable at `H + 1`, provided it is
    not a RESTORED coinbase/vote output (restored outputs have ValidHeight 0; normal-type ones
    are harmless). -/
theorem usable_implies_spendable_partial (P : Params) (hP : ParamsOK P) (steps : List Step) (id : Nat) (u : Utxo)
    (H : Nat) (hu : dbGet id (walk P steps ([], [])).2 = some u)
    (hnot : u.validHeight ≠ 0 ∨ u.gKind = 0) (huse : usable u H = true) :
    spendableAt P u.gKind u.gHeight (H + 1) = true := by
  have hinv := freshOrZero_walk P steps ([], []) (by intro id u h; simp [dbGet] at h)
  rcases hinv id u hu with hf | hz
  · exact fresh_usable_implies_spendable P hP u hf H huse
  · rcases hnot with h1 | h2
    · exact absurd hz h1
    · rw [h2]; exact normal_always_spendable P _ _

/-- wallets that only ever attached (a scan of the main chain) hold only fresh outputs -/
theorem rescan_all_fresh (P : Params) : ∀ (chain : List Block) (id : Nat) (u : Utxo),
    dbGet id (rescan P chain) = some u → IsFresh P u := by
  intro chain
  induction chain with
  | nil => intro id u h; simp [rescan, dbGet] at h
  | cons b c ih =>
    intro id u h
    simp only [rescan] at h
    -- attach keeps "all fresh"
    have key : ∀ (txs : List Tx) (db : DB), (∀ id u, dbGet id db = some u → IsFresh P u) →
        ∀ id u, dbGet id (txs.foldl (attachTx P b.height) db) = some u → IsFresh P u := by
      intro txs
      induction txs with
      | nil => intro db hdb; exact hdb
      | cons t r ihr =>
        intro db hdb
        simp only [List.foldl_cons]
        apply ihr
        intro id u hu
        unfold attachTx at hu
        rw [get_applyOps] at hu
        rcases effect_some_cases id _ _ u hu with hm | hx
        · unfold attachOps at hm
          simp only [List.mem_append, List.mem_filterMap, List.mem_map, DbOp.put.injEq] at hm
          rcases hm with ⟨v, _, hv⟩ | ⟨u2, ⟨u0, ⟨o, _, ho⟩, hown⟩, rfl⟩
          · split at hv <;> cases hv
          · exact ⟨t.coinbase, b.height, o, u0, ho, hown⟩
        · exact hdb id u hx
    exact key b.txs (rescan P c) ih id u h

/-- `scan_usable_implies_spendable`: in a wallet obtained by scanning a chain, every usable
    UTXO is spendable at the next height. -/
theorem scan_usable_implies_spendable (P : Params) (hP : ParamsOK P) (chain : List Block) (id : Nat) (u : Utxo) (H : Nat)
    (hu : dbGet id (rescan P chain) = some u) (huse : usable u H = true) :
    spendableAt P u.gKind u.gHeight (H + 1) = true :=
  fresh_usable_implies_spendable P hP u (rescan_all_fresh P chain id u hu) H huse

/-! ### the ghost fields are the consensus entry -/

/-- `ghost_is_consensus_entry`: along every globally valid walk, each
    wallet UTXO is an output of the GLOBAL unspent set of the wallet's chain, and the consensus
    type and creation height the theorems above use for it (`gKind`, `gHeight`) are the ones the
    global set records for that output. -/
theorem ghost_is_consensus_entry (P : Params) (steps : List Step) (hw : GWalkOK P steps [])
    (hc : GChainOK P (walk P steps ([], [])).1) (id : Nat) (u : Utxo)
    (hu : dbGet id (walk P steps ([], [])).2 = some u) :
    ∃ v, dbGet id (rescan (allOf P) (walk P steps ([], [])).1) = some v ∧
      v.gKind = u.gKind ∧ v.gHeight = u.gHeight ∧ v.prog = u.prog ∧ v.amount = u.amount ∧ v.asset = u.asset := by
  have h1 := wallet_eq_rescan_global P steps hw id
  have h2 := rescan_is_owned_projection P _ hc id
  rw [hu, h2] at h1
  cases hv : dbGet id (rescan (allOf P) (walk P steps ([], [])).1) with
  | none => rw [hv] at h1; simp at h1
  | some v =>
    rw [hv] at h1
    simp only [Option.bind_some, Option.map_some] at h1
    cases hown : owned P v with
    | none => rw [hown] at h1; simp at h1
    | some w =>
      rw [hown] at h1
      simp only [Option.map_some, Option.some.injEq] at h1
      unfold owned at hown
      split at hown
      · simp only [Option.some.injEq] at hown
        subst hown
        have e1 := congrArg Utxo.gKind h1
        have e2 := congrArg Utxo.gHeight h1
        have e3 := congrArg Utxo.prog h1
        have e4 := congrArg Utxo.amount h1
        have e5 := congrArg Utxo.asset h1
        simp only [core] at e1 e2 e3 e4 e5
        exact ⟨v, rfl, e1.symm, e2.symm, e3.symm, e4.symm, e5.symm⟩
      · cases hown

/-- popping keeps a globally valid chain globally valid; pushing a globally valid block too -/
theorem gchain_of_gwalk (P : Params) : ∀ (steps : List Step) (chain : List Block) (db : DB),
    GChainOK P chain → GWalkOK P steps chain → GChainOK P (walk P steps (chain, db)).1 := by
  intro steps
  induction steps with
  | nil => intro chain db hc _; exact hc
  | cons st rest ih =>
    intro chain db hc hw
    cases st with
    | push b =>
      obtain ⟨hv, hrest⟩ := hw
      simp only [walk, List.foldl_cons, stepW]
      exact ih (b :: chain) _ ⟨hv, hc⟩ hrest
    | pop =>
      cases chain with
      | nil => simp only [walk, List.foldl_cons, stepW]; exact ih [] db trivial hw
      | cons b c => simp only [walk, List.foldl_cons, stepW]; exact ih c _ hc.2 hw

/-- `usable_implies_spendable_global`: along every globally valid walk
    outputs, a usable wallet UTXO that is not a restored coinbase/vote output is an output of
    the global unspent set whose consensus entry (type, creation height) allows spending it at
    the next height. -/
theorem usable_implies_spendable_global (P : Params) (hP : ParamsOK P) (steps : List Step)
    (hw : GWalkOK P steps []) (id : Nat) (u : Utxo) (H : Nat)
    (hu : dbGet id (walk P steps ([], [])).2 = some u)
    (hnot : u.validHeight ≠ 0 ∨ u.gKind = 0) (huse : usable u H = true) :
    ∃ v, dbGet id (rescan (allOf P) (walk P steps ([], [])).1) = some v ∧
      spendableAt P v.gKind v.gHeight (H + 1) = true := by
  obtain ⟨v, hv, hk, hh, _⟩ := ghost_is_consensus_entry P steps hw
    (gchain_of_gwalk P steps [] [] trivial hw) id u hu
  refine ⟨v, hv, ?_⟩
  rw [hk, hh]
  exact usable_implies_spendable_partial P hP steps id u H hu hnot huse

/-! ### the full statement fails: restored outputs (F15) -/

/-- pushes extend the tip by one height with the right parent (genesis: parent 0, height 0) -/
def Linked : List Step → List Block → Prop
  | [], _ => True
  | .push b :: rest, [] => b.parent = 0 ∧ b.height = 0 ∧ Linked rest [b]
  | .push b :: rest, t :: c => b.parent = t.id ∧ b.height = t.height + 1 ∧ Linked rest (b :: t :: c)
  | .pop :: rest, chain => Linked rest chain.tail

/-- FULL statement: after every valid, linked walk every usable wallet UTXO is spendable at the
    next height. Refuted below. -/
def usable_implies_spendable_full : Prop :=
  ∀ (P : Params), ParamsOK P → ∀ (steps : List Step), WalkOK P steps [] → Linked steps [] →
    ∀ id u, dbGet id (walk P steps ([], [])).2 = some u →
      usable u (tipHeight (walk P steps ([], [])).1) = true →
      spendableAt P u.gKind u.gHeight (tipHeight (walk P steps ([], [])).1 + 1) = true

/-- F15 witness: program 1 is the wallet's. Block 1 (height 0) pays coinbase output 1 to it;
    blocks 2..11 are empty (coinbase to a foreign program); block 12 (height 11) spends output 1;
    the reorganisation detaches blocks 12..7. At tip height 5 the restored output has
    ValidHeight 0 although consensus locks the coinbase until height 10. -/
def f15Params : Params := ⟨fun _ => true, fun p => if p = 1 then 1 else 0, 10, fun _ => 10⟩
def cbTx (out prog : Nat) : Tx := ⟨true, [⟨2, ⟨0, 2, 0, 0, 0, 0⟩, 0, 0⟩], [⟨out, 0, 0, 500, prog, 0⟩]⟩
def f15Steps : List Step :=
  [.push ⟨1, 0, 0, [cbTx 1 1]⟩] ++
  (List.range 10).map (fun i => Step.push ⟨i + 2, i + 1, i + 1, [cbTx (i + 2) 2]⟩) ++
  [.push ⟨12, 11, 11, [cbTx 12 2, ⟨false, [⟨0, ⟨1, 0, 0, 500, 1, 0⟩, 1, 0⟩], [⟨13, 0, 0, 499, 2, 0⟩]⟩]⟩] ++
  List.replicate 6 Step.pop

theorem f15Params_ok : ParamsOK f15Params := ⟨fun _ _ _ => Nat.le_refl _, fun _ => by simp [f15Params]⟩

theorem usable_implies_spendable_full_refuted : ¬ usable_implies_spendable_full := by
  intro h
  have h1 := h f15Params f15Params_ok f15Steps (by simp only [f15Steps, List.range, List.range.loop, List.map, List.replicate, List.append, List.cons_append, List.nil_append, WalkOK]; decide)
    (by simp only [f15Steps, List.range, List.range.loop, List.map, List.replicate, List.append, List.cons_append, List.nil_append, Linked, List.tail]; decide)
    1 ⟨1, 0, 500, 1, 0, 1, 0, 1, 0⟩ (by decide) (by decide)
  revert h1
  decide

/-! ### the parameter assumption matters: mainnet's table grows (F15b) -/

/-- mainnet `VotePendingBlockNums`: 14400 below height 432000, 302400 from there -/
def mainnetPending (h : Nat) : Nat := if h < 432000 then 14400 else 302400
def mainnetParams : Params := ⟨fun _ => true, fun p => if p = 1 then 1 else 0, 10, mainnetPending⟩

/-- FULL statement without the assumption on the parameters. Refuted for mainnet's table. -/
def fresh_usable_implies_spendable_full : Prop :=
  ∀ (P : Params) (u : Utxo), IsFresh P u → ∀ H, usable u H = true → spendableAt P u.gKind u.gHeight (H + 1) = true

theorem fresh_usable_implies_spendable_full_refuted : ¬ fresh_usable_implies_spendable_full := by
  intro h
  have h1 := h mainnetParams ⟨3, 0, 500, 1, 7, 1, 431999 + 14400, 2, 431999⟩
    ⟨false, 431999, ⟨3, 1, 0, 500, 1, 7⟩, _, rfl, rfl⟩ 446399 (by decide)
  revert h1
  decide

/-- the hypotheses of `usable_implies_spendable_partial` are met by a non-trivial state: after
    attaching block 1 the wallet's coinbase UTXO 1 (ValidHeight 10) is usable at height 10 and
    consensus lets it be spent at height 11 -/
example : ∃ u, dbGet 1 (walk f15Params [.push ⟨1, 0, 0, [cbTx 1 1]⟩] ([], [])).2 = some u ∧
    (u.validHeight ≠ 0 ∨ u.gKind = 0) ∧ usable u 10 = true ∧ spendableAt f15Params u.gKind u.gHeight 11 = true :=
  ⟨⟨1, 0, 500, 1, 0, 1, 10, 1, 0⟩, by decide, by decide, by decide, by decide⟩

/-- testnet / solonet (constant 10) satisfy the assumption -/
example : ParamsOK ⟨fun _ => true, fun _ => 0, 10, fun _ => 10⟩ := ⟨fun _ _ _ => Nat.le_refl _, fun _ => by simp⟩


/-! ### the keeper side: which record of an output decides "usable" -/

section KeeperSide
open BytomModel.Model.Keeper BytomModel.Lemmas.Keeper

/-- `listed_usable_is_mature_confirmed`: every record `findUtxos` hands to Reserve is mature at the
    keeper's height; and when the output is a wallet-DB record (standard key, matching the
    request), the record handed out IS that DB record — the confirmed record wins whatever its
    maturity, so an immature confirmed output is never listed through an unconfirmed copy of it
    that carries another ValidHeight. -/
theorem listed_usable_is_mature_confirmed (k : BytomModel.Model.Keeper.Keeper) (acct asset : Nat) (useUnc : Bool) (vote : Nat)
    (hnd : ((k.confirmed.filter (fun c => !c.contract)).map (·.id)).Nodup)
    (u : BytomModel.Model.Keeper.Utxo) (hu : u ∈ (findUtxos k acct asset useUnc vote).1) :
    u.validHeight ≤ k.height ∧
    ∀ c ∈ k.confirmed, c.contract = false → matchesReq acct asset vote c = true → c.id = u.id → u = c := by
  simp only [findUtxos, List.mem_filter, mature, decide_eq_true_eq] at hu
  refine ⟨hu.2, ?_⟩
  intro c hc hstd hmatch hid
  have hm := hu.1
  unfold matching listed at hm
  rw [List.filter_append] at hm
  have hcin : c ∈ (k.confirmed.filter (fun c => !c.contract)).filter (matchesReq acct asset vote) := by
    simp [List.mem_filter, hc, hstd, hmatch]
  have hul := distinctById_append_left _ _ u hm ⟨c, hcin, hid⟩
  have hu1 : u ∈ k.confirmed.filter (fun c => !c.contract) := (List.mem_filter.mp hul).1
  have hc1 : c ∈ k.confirmed.filter (fun c => !c.contract) := (List.mem_filter.mp hcin).1
  exact List.inj_on_of_nodup_map hnd hu1 hc1 hid.symm

/-- corollary for Reserve: a successful reservation holds no output whose wallet-DB record is
    still immature -/
theorem reserve_never_holds_immature_confirmed (sortFn : List BytomModel.Model.Keeper.Utxo → List BytomModel.Model.Keeper.Utxo)
    (hperm : ∀ l, (sortFn l).Perm l) (k k' : BytomModel.Model.Keeper.Keeper)
    (acct asset amount : Nat) (useUnc : Bool) (vote exp : Nat) (r : Res)
    (hnd : ((k.confirmed.filter (fun c => !c.contract)).map (·.id)).Nodup)
    (h : reserveWith sortFn k acct asset amount useUnc vote exp = (.ok r, k'))
    (c : BytomModel.Model.Keeper.Utxo) (hc : c ∈ k.confirmed) (hstd : c.contract = false)
    (hmatch : matchesReq acct asset vote c = true) (hheld : ∃ u ∈ r.utxos, u.id = c.id) :
    c.validHeight ≤ k.height := by
  obtain ⟨u, hu, hid⟩ := hheld
  rcases reserveWith_cases sortFn k acct asset amount useUnc vote exp with ⟨r0, h0, _, _, hsub, _, _⟩ | ⟨_, hne⟩
  · rw [h0] at h
    simp only [Prod.mk.injEq, Outcome.ok.injEq] at h
    obtain ⟨rfl, _⟩ := h
    have hm := (hsub.subset hu)
    simp only [List.mem_filter] at hm
    have hcand := (hperm _).mem_iff.mp hm.1
    obtain ⟨hmat, heq⟩ := listed_usable_is_mature_confirmed k acct asset useUnc vote hnd u hcand
    rw [← heq c hc hstd hmatch hid.symm]
    exact hmat
  · exact absurd (by rw [h]) (hne r)

/-- FULL statement for ReserveParticular: the output it hands out is mature according to its
    wallet-DB record. Refuted (F15c): with `useUnconfirmed` the unconfirmed copy is preferred. -/
def particular_confirmed_mature_full : Prop :=
  ∀ (k k' : BytomModel.Model.Keeper.Keeper) (oid : Nat) (useUnc : Bool) (exp : Nat) (r : Res),
    reserveParticular k oid useUnc exp = (.ok r, k') →
    ∀ c ∈ k.confirmed, c.id = oid → c.validHeight ≤ k.height

/-- witness: vote output 1 created at height 11 with pending 10: DB record ValidHeight 21, its
    pool copy (txOutToUtxos(tx, 0)) ValidHeight 10; at height 11 it is handed out. -/
def f15cKeeper : BytomModel.Model.Keeper.Keeper :=
  { BytomModel.Model.Keeper.empty with confirmed := [⟨1, 0, 500, 1, 7, 21, false, 1⟩], unconfirmed := [⟨1, 0, 500, 1, 7, 10, false, 1⟩], height := 11 }

theorem particular_confirmed_mature_full_refuted : ¬ particular_confirmed_mature_full := by
  intro h
  have := h f15cKeeper _ 1 true 50 _ rfl ⟨1, 0, 500, 1, 7, 21, false, 1⟩ (by decide) rfl
  revert this; decide

/-- `particular_confirmed_mature_partial`: without `useUnconfirmed` (or when the output has no
    pool copy) the record handed out is a wallet-DB record and it is mature. -/
theorem particular_confirmed_mature_partial (k k' : BytomModel.Model.Keeper.Keeper) (oid : Nat) (exp : Nat) (r : Res)
    (h : reserveParticular k oid false exp = (.ok r, k')) :
    ∃ c ∈ k.confirmed, c.id = oid ∧ r.utxos = [c] ∧ c.validHeight ≤ k.height := by
  rcases reserveParticular_cases k oid false exp with ⟨u, h0, hf, hid, _, hm⟩ | ⟨_, hne⟩
  · rw [h0] at h
    simp only [Prod.mk.injEq, Outcome.ok.injEq] at h
    obtain ⟨rfl, _⟩ := h
    refine ⟨u, ?_, hid, rfl, hm⟩
    unfold findUtxo at hf
    simp only [Bool.false_eq_true, if_false] at hf
    split at hf
    · rename_i v hv
      simp only [Option.some.injEq] at hf; subst hf
      exact List.mem_of_find?_eq_some hv
    · exact List.mem_of_find?_eq_some hf
  · exact absurd (by rw [h]) (hne r)

/-- the Reserve path refuses the same state (the unchanged findUtxos lets the DB record win) -/
example : (reserve f15cKeeper 1 0 100 true 7 50).1 = .err .immature := by decide

end KeeperSide

end BytomModel.Props.C25
