import BytomModel.Model.Wallet
namespace BytomModel.Props.C25
theorem placeholder : (1:Nat) = 1 := rfl
end BytomModel.Props.C25
