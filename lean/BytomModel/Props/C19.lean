/-
C19 — the node restarts cleanly from a crash at any point (write-order part).

Stated over the write-log model `Model/WriteLog.lean`: the batches every entry point commits, in
the order regenerated from the Go source (`Ties/C19.lean`), and `recover` = what
`NewChainWithOrphanManage` needs to find.  A crash point is a number `k` of committed batches;
`dbAt ops k` is the database holding exactly the first `k` batches of the history `ops`.

* `recover_ok_of_refs_closed` — if every durable record references only durable records, the
  restart succeeds.
* `refs_closed_full` — "the code's write order keeps the references closed at EVERY crash
  point" — is refuted by the F12 witness (crash between the two batches of `saveBlock` of a block
  that closes an epoch: `recover` fails with `checkpointWithoutHeader`).
* `refs_closed_partial` / `restart_ok_outside_gap` — closed, and restart succeeds, at every crash
  point of every well-formed history except inside that gap.
* `status_atomic` — best block, index, utxo set and contract table change in ONE batch: the
  chain-status level of every crash point is that of a prefix of whole operations, i.e. a state
  the crash-free run passed through.
What a restarted node then does with votes / finality that were durable before the chain status
(F12s, F12f) is not a statement about write order: it is checked on the real node by the crash
stream (known findings).
-/
import BytomModel.Lemmas.WriteLog

namespace BytomModel.Props.C19
open BytomModel.WriteLog BytomModel.Lemmas.WriteLog

/-- if every durable record only references durable records — chain status → header and
    transactions of the best block, finalized checkpoint record; checkpoint record → header of
    its block — `NewChain`'s reads all succeed -/
theorem recover_ok_of_refs_closed (db : DB) (h : RefsClosed db) : recover db = .ok () :=
  recover_ok db h

/-- full strength: along every well-formed history the references are closed at every crash point -/
def refs_closed_full : Prop :=
  ∀ (ops : List Op), WF [] ops → ∀ k, RefsClosed (dbAt ops k)

theorem witness_wf : WF [] witness := by
  refine ⟨rfl, ?_, ?_, ?_, trivial⟩
  · intro c h; cases h
  · exact ⟨by decide, by decide, 2, by decide⟩
  · intro c h
    simp only [List.mem_singleton] at h
    subst h
    left; rfl

/-- F12: after 7 batches (… , SaveCheckpoints of b2's checkpoint) the checkpoint record of b2 is
    durable, the block b2 is not -/
theorem refs_closed_full_refuted : ¬ refs_closed_full := by
  intro h
  have h1 := (h witness witness_wf 7).2 { height := 2, id := 2, status := 1 } (by decide)
  revert h1
  decide

/-- … and the restart on exactly that database fails the way the real node does
    ("There are no blockHeader with given hash" out of `CheckpointsFromNode`) -/
theorem f12_restart_fails : recover (dbAt witness 7) = .error .checkpointWithoutHeader := by decide

/-- one batch later the block is durable and the restart succeeds -/
theorem f12_restart_ok_after_block : recover (dbAt witness 8) = .ok () := by decide

/-- partial: closed at every crash point that is not between the two batches of a `saveBlock`
    whose first batch holds the block's own checkpoint -/
theorem refs_closed_partial (ops : List Op) (wf : WF [] ops) (k : Nat) (hg : ¬ inGap ops k) :
    RefsClosed (dbAt ops k) :=
  closed_run ops [] closed_empty wf k hg

/-- hence the restart succeeds at every such crash point -/
theorem restart_ok_outside_gap (ops : List Op) (wf : WF [] ops) (k : Nat) (hg : ¬ inGap ops k) :
    recover (dbAt ops k) = .ok () :=
  recover_ok _ (refs_closed_partial ops wf k hg)

/-- the gap is exactly one crash point per epoch-closing block: a `saveBlock` whose `ApplyBlock`
    persists nothing about the block itself (a block inside an epoch) has no gap -/
theorem no_gap_without_own_checkpoint (b : Blk) (cks : List Ck) (h : ∀ c, c ∈ cks → c.id ≠ b.id) (j : Nat) :
    ¬ opGap (.saveBlock b cks) j := by
  rintro ⟨_, c, hc, e⟩
  exact h c hc e

/-- best block, index, utxo set and contract table change in one batch: at every crash point
    the chain-status level of the database (status, index, utxo, contract records) is the one
    after some number `j` of WHOLE operations — a state the crash-free run passed through -/
theorem status_atomic (ops : List Op) (k : Nat) :
    ∃ j, j ≤ ops.length ∧ chainView (dbAt ops k) = chainView (dbAt (ops.take j) (logOf (ops.take j)).length) := by
  obtain ⟨j, hj, e⟩ := chainView_run ops [] k
  refine ⟨j, hj, ?_⟩
  unfold dbAt
  rw [List.take_length]
  exact e

/-- in particular the recovered chain status record is one the crash-free run committed -/
theorem recovered_status_was_committed (ops : List Op) (k : Nat) :
    ∃ j, j ≤ ops.length ∧ lastStatus (dbAt ops k) = lastStatus (dbAt (ops.take j) (logOf (ops.take j)).length) := by
  obtain ⟨j, hj, e⟩ := status_atomic ops k
  exact ⟨j, hj, by rw [← lastStatus_chainView, e, lastStatus_chainView]⟩

/-! ## tests: the hypotheses are satisfiable, the gap is where the witness says -/

/-- the witness history is well-formed, crash point 7 is in the gap, 6 and 8 are not -/
example : WF [] witness ∧ inGap witness 7 ∧ ¬ inGap witness 6 ∧ ¬ inGap witness 8 := by
  refine ⟨witness_wf, ?_, ?_, ?_⟩
  · right; refine ⟨by decide, ?_⟩
    right; refine ⟨by decide, ?_⟩
    right; refine ⟨by decide, ?_⟩
    left; exact ⟨by decide, rfl, _, List.mem_singleton.mpr rfl, rfl⟩
  · intro h
    rcases h with ⟨_, h⟩ | ⟨_, h⟩
    · exact h
    · rcases h with ⟨_, h⟩ | ⟨_, h⟩
      · exact absurd h.1 (by decide)
      · rcases h with ⟨_, h⟩ | ⟨h, _⟩
        · exact h
        · exact absurd h (by decide)
  · intro h
    rcases h with ⟨_, h⟩ | ⟨_, h⟩
    · exact h
    · rcases h with ⟨_, h⟩ | ⟨_, h⟩
      · exact absurd h.1 (by decide)
      · rcases h with ⟨_, h⟩ | ⟨_, h⟩
        · exact h
        · rcases h with ⟨_, h⟩ | ⟨_, h⟩
          · exact absurd h.1 (by decide)
          · exact h

/-- `status_atomic` on the witness: at crash point 7 the chain-status level is the one after the
    first three operations (best block b1) -/
example : lastStatus (dbAt witness 7) = some { best := 1, fin := 0, finHeight := 0 } := by decide

end BytomModel.Props.C19
