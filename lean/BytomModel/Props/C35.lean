/-
C35 — Peer ban scores follow the documented decay rule.

All theorems are about `BytomModel.Model.BanScore` (the model of `DynamicBanScore.int` /
`.increase` that is compared — instantiated with IEEE doubles — with both copies of the
real code on every run), here instantiated with an ARBITRARY linearly ordered field `α`
with a floor function, `trunc x = ⌊x⌋₊`, and an arbitrary decay function `d` satisfying
`Decay d`.  Clock differences are assumed to fit `int64` (`InRange`).
-/
import BytomModel.Model.BanScore
import Mathlib.Algebra.Order.Floor.Semiring
import Mathlib.Algebra.Order.Field.Basic
import Mathlib.Tactic.Linarith
import Mathlib.Tactic.Positivity
import Mathlib.Tactic.NormNum
import Mathlib.Data.Rat.Floor
import Mathlib.Analysis.SpecialFunctions.Pow.Real

namespace BytomModel.Props.C35
open BytomModel.Model.BanScore BytomModel.Fixed

set_option linter.unusedSectionVars false

variable {α : Type} [Field α] [LinearOrder α] [IsStrictOrderedRing α] [FloorSemiring α]

/-- Go `uint32(x)` before the reduction modulo 2^32 -/
def fl (x : α) : Nat := ⌊x⌋₊

/-- what the theorems need of `decayFactor` (all true of `2^(-t/60)`, see `Decay.halflife`) -/
structure Decay (d : Int → α) : Prop where
  zero : d 0 = 1
  pos : ∀ t, 0 ≤ t → 0 < d t
  le_one : ∀ t, 0 ≤ t → d t ≤ 1

/-- the clock difference fits `int64` -/
def InRange (t last : Int) : Prop := -(9223372036854775808 : Int) ≤ t - last ∧ t - last < 9223372036854775808

theorem elapsed_eq {t last : Int} (h : InRange t last) : elapsed t last = t - last := by
  unfold InRange at h
  unfold elapsed wrapI
  simp only [Nat.reduceSub, Int.reducePow]
  omega

theorem u32_le (n : Nat) : u32 n ≤ n := Nat.mod_le _ _
theorem u32_lt (n : Nat) : u32 n < two32 := Nat.mod_lt _ (by decide)
theorem u32_id {n : Nat} (h : n < two32) : u32 n = n := Nat.mod_eq_of_lt h

/-! ### the score formula -/

/-- inside the lifetime, with a transient part of at least 1, the score is
    `persistent + ⌊transient · d(t − last)⌋` (both additions in `uint32`) -/
theorem score_formula (d : Int → α) (s : State α) (t : Int) (hr : InRange t s.lastUnix)
    (h1 : 1 ≤ s.transient) (h2 : 0 ≤ t - s.lastUnix) (h3 : t - s.lastUnix ≤ 1800) :
    score d fl s t = u32 (s.persistent + u32 (fl (s.transient * d (t - s.lastUnix)))) := by
  unfold score
  simp only [elapsed_eq hr, lifetime, Nat.cast_one]
  rw [if_neg]
  intro h
  rcases h with h | h | h
  · exact absurd h1 (not_le.mpr h)
  · omega
  · omega

/-- … and exactly `persistent + ⌊transient · d(t − last)⌋` when that fits `uint32` -/
theorem score_formula_nowrap (d : Int → α) (s : State α) (t : Int) (hr : InRange t s.lastUnix)
    (h1 : 1 ≤ s.transient) (h2 : 0 ≤ t - s.lastUnix) (h3 : t - s.lastUnix ≤ 1800)
    (hw : s.persistent + fl (s.transient * d (t - s.lastUnix)) < two32) :
    score d fl s t = s.persistent + fl (s.transient * d (t - s.lastUnix)) := by
  rw [score_formula d s t hr h1 h2 h3, u32_id (n := fl _) (by omega), u32_id hw]

/-- otherwise (no transient part, clock moved backwards, or lifetime over) it is the persistent score -/
theorem score_formula_else (d : Int → α) (s : State α) (t : Int) (hr : InRange t s.lastUnix)
    (h : s.transient < 1 ∨ t - s.lastUnix < 0 ∨ 1800 < t - s.lastUnix) :
    score d fl s t = s.persistent := by
  unfold score
  simp only [elapsed_eq hr, lifetime, Nat.cast_one]
  rw [if_pos h]

/-- the transient part is forgotten after 30 minutes -/
theorem lifetime_forgets (d : Int → α) (s : State α) (t : Int) (hr : InRange t s.lastUnix)
    (h : 1800 < t - s.lastUnix) : score d fl s t = s.persistent :=
  score_formula_else d s t hr (Or.inr (Or.inr h))

/-- the score is a `uint32` value (in particular never negative) -/
theorem score_range (d : Int → α) (s : State α) (t : Int) (hp : s.persistent < two32) : score d fl s t < two32 := by
  unfold score
  dsimp only
  split
  · exact hp
  · exact u32_lt _

/-- the score never exceeds `persistent + ⌊transient · d⌋`, and is at least `persistent` when that sum fits -/
theorem score_bounds (d : Int → α) (hd : Decay d) (s : State α) (t : Int) (hr : InRange t s.lastUnix) (h0 : 0 ≤ s.transient)
    (hw : s.persistent + fl s.transient < two32) :
    s.persistent ≤ score d fl s t ∧ score d fl s t ≤ s.persistent + fl s.transient := by
  unfold score
  simp only [elapsed_eq hr, lifetime, Nat.cast_one]
  split
  · omega
  · rename_i hc
    simp only [not_or, not_lt] at hc
    have hle : fl (s.transient * d (t - s.lastUnix)) ≤ fl s.transient := by
      apply Nat.floor_le_floor
      have := hd.le_one _ hc.2.1
      nlinarith
    rw [u32_id (n := fl _) (by omega), u32_id (by omega)]
    omega

/-- the decay function is consulted only on `[0, Lifetime]` (inside the precomputed table or
    the `math.Exp` branch, never with a negative index) -/
theorem score_congr (d d' : Int → α) (hdd : ∀ x, 0 ≤ x → x ≤ 1800 → d x = d' x) (s : State α) (t : Int) :
    score d fl s t = score d' fl s t := by
  unfold score
  dsimp only
  split
  · rfl
  · rename_i hc
    simp only [not_or, not_lt, lifetime] at hc
    rw [hdd _ hc.2.1 hc.2.2]

theorem increase_congr (d d' : Int → α) (hdd : ∀ x, 0 ≤ x → x ≤ 1800 → d x = d' x) (s : State α) (p tr : Nat) (t : Int) :
    increase d fl s p tr t = increase d' fl s p tr t := by
  have : decayed d s (elapsed t s.lastUnix) = decayed d' s (elapsed t s.lastUnix) := by
    unfold decayed
    split
    · rfl
    · rename_i h1
      split
      · rename_i h2
        simp only [lifetime, not_lt] at h1
        rw [hdd _ (le_of_lt h2.2) h1]
      · rfl
  unfold increase
  simp only [this, score_congr d d' hdd]

/-! ### half-life -/

/-- an exponential decay with `d 60 = 1/2` halves every 60 seconds: the transient part read
    60 s later is half of what it is now -/
theorem halflife (d : Int → α) (hmul : ∀ a b, 0 ≤ a → 0 ≤ b → d (a + b) = d a * d b) (hhalf : d 60 = 1 / 2)
    (x : α) (dt : Int) (h : 0 ≤ dt) : x * d (dt + 60) = x * d dt / 2 := by
  rw [hmul dt 60 h (by decide), hhalf]; ring

/-! ### increase -/

theorem decayed_nonneg (d : Int → α) (hd : Decay d) (s : State α) (dt : Int) (h0 : 0 ≤ s.transient) :
    0 ≤ decayed d s dt := by
  unfold decayed
  split
  · simp
  · split
    · rename_i h
      have := hd.pos dt (le_of_lt h.2)
      positivity
    · exact h0

/-- the transient field after `increase(_, tr, t)` -/
def newTransient (d : Int → α) (s : State α) (tr : Nat) (t : Int) : α :=
  if 0 < tr then decayed d s (elapsed t s.lastUnix) + (tr : α) else s.transient

omit [IsStrictOrderedRing α] in
theorem increase_transient (d : Int → α) (s : State α) (p tr : Nat) (t : Int) :
    (increase d fl s p tr t).1.transient = newTransient d s tr t := by
  unfold increase newTransient; dsimp only; split <;> rfl

/-- `increase` returns the score at that instant — at full strength, for every transient amount
    (since fix 8c2b5a5d the function ends with `return s.int(t)`) -/
theorem increase_returns_score (d : Int → α) (s : State α) (p tr : Nat) (t : Int) :
    (increase d fl s p tr t).2 = score d fl (increase d fl s p tr t).1 t := rfl

/-- with a transient amount the returned score is `persistent + ⌊new transient⌋` (in `uint32`):
    the clock of the new state is `t`, nothing has decayed yet -/
theorem increase_result (d : Int → α) (hd : Decay d) (s : State α) (p tr : Nat) (t : Int)
    (h0 : 0 ≤ s.transient) (htr : 0 < tr) :
    (increase d fl s p tr t).2 = u32 (u32 (s.persistent + p) + u32 (fl (newTransient d s tr t))) := by
  have hn := decayed_nonneg d hd s (elapsed t s.lastUnix) h0
  have h1 : (1 : α) ≤ decayed d s (elapsed t s.lastUnix) + (tr : α) := by
    have : (1 : α) ≤ (tr : α) := by exact_mod_cast htr
    linarith
  have he : elapsed t t = 0 := by
    unfold elapsed wrapI; simp
  unfold increase newTransient score
  simp only [if_pos htr, he, Nat.cast_one, hd.zero, mul_one]
  rw [if_neg]
  intro h
  rcases h with h | h | h
  · exact absurd h1 (not_le.mpr h)
  · omega
  · simp [lifetime] at h

/-- each increase raises the score at that instant by at least the added persistent amount —
    provided the `uint32` sums do not wrap -/
theorem monotone_in_persistent_partial (d : Int → α) (hd : Decay d) (s : State α) (p tr : Nat) (t : Int)
    (hr : InRange t s.lastUnix) (h0 : 0 ≤ s.transient)
    (hw : s.persistent + p + fl (increase d fl s p tr t).1.transient < two32) :
    score d fl s t + p ≤ (increase d fl s p tr t).2 := by
  rw [increase_transient] at hw
  by_cases htr : 0 < tr
  · -- a transient amount was added: the result is persistent + p + ⌊new transient⌋
    have hret : (increase d fl s p tr t).2 = s.persistent + p + fl (newTransient d s tr t) := by
      rw [increase_result d hd s p tr t h0 htr, u32_id (n := s.persistent + p) (by omega),
        u32_id (n := fl _) (by omega), u32_id (by omega)]
    rw [hret]
    unfold score
    simp only [elapsed_eq hr, lifetime, Nat.cast_one]
    split
    · omega
    · rename_i hc
      simp only [not_or, not_lt] at hc
      have hdle := hd.le_one _ hc.2.1
      have hdpos := hd.pos _ hc.2.1
      have key : fl (s.transient * d (t - s.lastUnix)) ≤ fl (newTransient d s tr t) := by
        apply Nat.floor_le_floor
        unfold newTransient
        simp only [elapsed_eq hr, if_pos htr]
        have : (0 : α) ≤ (tr : α) := Nat.cast_nonneg _
        unfold decayed
        rw [if_neg (by simp only [lifetime]; omega)]
        split
        · linarith
        · nlinarith
      have := u32_le (s.persistent + u32 (fl (s.transient * d (t - s.lastUnix))))
      have := u32_le (fl (s.transient * d (t - s.lastUnix)))
      omega
  · -- only the persistent part changes: the same decayed transient is added to persistent + p
    have hnt : newTransient d s tr t = s.transient := by unfold newTransient; rw [if_neg htr]
    rw [hnt] at hw
    have hs' : (increase d fl s p tr t).1 = { s with persistent := u32 (s.persistent + p) } := by
      unfold increase; simp only [if_neg htr]
    rw [increase_returns_score, hs']
    unfold score
    simp only [elapsed_eq hr, lifetime, Nat.cast_one]
    rw [u32_id (n := s.persistent + p) (by omega)]
    split
    · omega
    · rename_i hc
      simp only [not_or, not_lt] at hc
      have hdle := hd.le_one _ hc.2.1
      have hle : fl (s.transient * d (t - s.lastUnix)) ≤ fl s.transient := by
        apply Nat.floor_le_floor; nlinarith
      rw [u32_id (n := fl _) (by omega), u32_id (n := s.persistent + _) (by omega), u32_id (by omega)]
      omega

/-- … at full strength (no side condition) -/
def monotone_in_persistent_full : Prop :=
  ∀ (d : Int → ℚ) (s : State ℚ) (p tr : Nat) (t : Int), Decay d → 0 ≤ s.transient → s.persistent < two32 → p < two32 →
    InRange t s.lastUnix → score d fl s t + p ≤ (increase d fl s p tr t).2

/-- F21: persistent 2^32 − 1, `increase(1, 0, t)` returns 0 -/
theorem monotone_in_persistent_full_refuted : ¬ monotone_in_persistent_full := by
  intro h
  have hd : Decay (fun _ : Int => (1 : ℚ)) := ⟨rfl, fun _ _ => by norm_num, fun _ _ => le_refl _⟩
  have := h (fun _ => 1) ⟨0, 0, 4294967295⟩ 1 0 10 hd (by norm_num) (by decide) (by decide) (by unfold InRange; norm_num)
  simp [increase, score, u32, two32] at this

/-- the persistent part is the `uint32` sum of the added amounts, untouched by time -/
theorem increase_persistent (d : Int → α) (s : State α) (p tr : Nat) (t : Int) :
    (increase d fl s p tr t).1.persistent = u32 (s.persistent + p) := by
  unfold increase; simp only; split <;> rfl

/-! ### closed form over histories -/

/-- one `increase(p, tr, t)` call -/
structure Ev where
  p : Nat
  tr : Nat
  t : Int

def stepEv (d : Int → α) (s : State α) (e : Ev) : State α := (increase d fl s e.p e.tr e.t).1

def runEvs (d : Int → α) (s : State α) (evs : List Ev) : State α := evs.foldl (stepEv d) s

/-- the documented transient score at clock `T`: every transient amount decayed by its age -/
def ideal (d : Int → α) : List Ev → Int → α
  | [], _ => 0
  | e :: rest, T => (if 0 < e.tr then (e.tr : α) * d (T - e.t) else 0) + ideal d rest T

/-- the histories the closed form is proved for (relative to the state they start in):
    clock differences fit int64; an event carries no transient amount or at least 2 (a stored
    transient of ≤ 1 is never decayed by the code); the clock does not run backwards between
    transient events and they are at most `Lifetime` apart (a longer gap resets the transient part) -/
def GoodFrom (d : Int → α) : State α → List Ev → Prop
  | _, [] => True
  | s, e :: rest =>
    InRange e.t s.lastUnix ∧
    (e.tr = 0 ∨ (2 ≤ e.tr ∧ (s.transient = 0 ∨ (s.lastUnix ≤ e.t ∧ e.t - s.lastUnix ≤ 1800)))) ∧
    GoodFrom d (stepEv d s e) rest

theorem ideal_append (d : Int → α) (a b : List Ev) (T : Int) : ideal d (a ++ b) T = ideal d a T + ideal d b T := by
  induction a with
  | nil => simp [ideal]
  | cons e r ih => simp [ideal, ih, add_assoc]

theorem ideal_shift (d : Int → α) (hmul : ∀ a b, 0 ≤ a → 0 ≤ b → d (a + b) = d a * d b) (pre : List Ev) (T T' : Int)
    (hpre : ∀ e ∈ pre, 0 < e.tr → e.t ≤ T) (hT : T ≤ T') : ideal d pre T * d (T' - T) = ideal d pre T' := by
  induction pre with
  | nil => simp [ideal]
  | cons e r ih =>
    have ihr := ih (fun x hx => hpre x (by simp [hx]))
    simp only [ideal, add_mul, ihr]
    congr 1
    split
    · rename_i h
      have := hpre e (by simp) h
      have e1 : T' - e.t = (T - e.t) + (T' - T) := by ring
      rw [e1, hmul _ _ (by omega) (by omega)]; ring
    · simp

theorem ideal_no_transient (d : Int → α) (pre : List Ev) (T : Int) (h : ∀ e ∈ pre, e.tr = 0) : ideal d pre T = 0 := by
  induction pre with
  | nil => rfl
  | cons e r ih =>
    have := h e (by simp)
    simp [ideal, this, ih (fun x hx => h x (by simp [hx]))]

/-- the invariant carried along a good history -/
structure Tracks (d : Int → α) (s : State α) (pre : List Ev) : Prop where
  tr : s.transient = ideal d pre s.lastUnix
  past : ∀ e ∈ pre, 0 < e.tr → e.t ≤ s.lastUnix
  big : s.transient = 0 ∨ 2 ≤ s.transient
  fresh : s.transient = 0 → ∀ e ∈ pre, e.tr = 0
  pers : s.persistent = (pre.map (·.p)).sum % two32

theorem tracks_step (d : Int → α) (hd : Decay d) (hmul : ∀ a b, 0 ≤ a → 0 ≤ b → d (a + b) = d a * d b)
    (s : State α) (pre : List Ev) (e : Ev) (h : Tracks d s pre)
    (hr : InRange e.t s.lastUnix)
    (hg : e.tr = 0 ∨ (2 ≤ e.tr ∧ (s.transient = 0 ∨ (s.lastUnix ≤ e.t ∧ e.t - s.lastUnix ≤ 1800)))) :
    Tracks d (stepEv d s e) (pre ++ [e]) := by
  have hp : (stepEv d s e).persistent = ((pre ++ [e]).map (·.p)).sum % two32 := by
    unfold stepEv; rw [increase_persistent, h.pers]; unfold u32
    simp [Nat.add_mod]
  rcases hg with h0 | ⟨h2, hcase⟩
  · -- no transient amount: only the persistent part changes
    have hs : (stepEv d s e).transient = s.transient ∧ (stepEv d s e).lastUnix = s.lastUnix := by
      unfold stepEv increase; simp [h0]
    refine ⟨?_, ?_, ?_, ?_, hp⟩
    · rw [hs.1, hs.2, ideal_append, h.tr]; simp [ideal, h0]
    · intro x hx hxt; rw [hs.2]; simp at hx
      rcases hx with hx | rfl
      · exact h.past x hx hxt
      · omega
    · rw [hs.1]; exact h.big
    · intro hz x hx; rw [hs.1] at hz; simp at hx
      rcases hx with hx | rfl
      · exact h.fresh hz x hx
      · exact h0
  · have htr : 0 < e.tr := by omega
    have hcast : (2 : α) ≤ (e.tr : α) := by exact_mod_cast h2
    have hs : (stepEv d s e).lastUnix = e.t ∧
        (stepEv d s e).transient = decayed d s (elapsed e.t s.lastUnix) + (e.tr : α) := by
      unfold stepEv increase; simp [htr]
    -- the decayed old transient is the documented value at the new clock
    have hdec : decayed d s (elapsed e.t s.lastUnix) = ideal d pre e.t ∧ 0 ≤ ideal d pre e.t := by
      rcases hcase with hz | ⟨hle, hgap⟩
      · have hi : ideal d pre e.t = 0 := ideal_no_transient d pre e.t (h.fresh hz)
        rw [hi]
        refine ⟨?_, le_refl _⟩
        unfold decayed; rw [hz]; simp
      · have hsh := ideal_shift d hmul pre s.lastUnix e.t h.past hle
        rw [← h.tr] at hsh
        have hnn : 0 ≤ s.transient := by
          rcases h.big with hb | hb
          · rw [hb]
          · linarith
        have hdp := hd.pos (e.t - s.lastUnix) (by omega)
        refine ⟨?_, by rw [← hsh]; positivity⟩
        rw [← hsh]
        unfold decayed
        rw [elapsed_eq hr, if_neg (by simp only [lifetime]; omega)]
        split
        · rfl
        · rename_i hc
          rw [not_and_or] at hc
          rcases hc with hc | hc
          · -- stored transient ≤ 1: by `big` it is 0
            rcases h.big with hb | hb
            · rw [hb]; simp
            · exfalso; apply hc; simp only [Nat.cast_one]; linarith
          · have : e.t - s.lastUnix = 0 := by omega
            rw [this, hd.zero, mul_one]
    refine ⟨?_, ?_, ?_, ?_, hp⟩
    · rw [hs.1, hs.2, ideal_append, hdec.1]
      simp [ideal, htr, hd.zero]
    · intro x hx hxt; rw [hs.1]; simp at hx
      rcases hx with hx | rfl
      · rcases hcase with hz | ⟨hle, _⟩
        · have := h.fresh hz x hx; omega
        · have := h.past x hx hxt; omega
      · exact le_refl _
    · right; rw [hs.2, hdec.1]; linarith [hdec.2]
    · intro hz; exfalso
      rw [hs.2, hdec.1] at hz; linarith [hdec.2]

theorem tracks_run (d : Int → α) (hd : Decay d) (hmul : ∀ a b, 0 ≤ a → 0 ≤ b → d (a + b) = d a * d b)
    (evs : List Ev) (hg : GoodFrom d (zero : State α) evs) : Tracks d (runEvs d zero evs) evs := by
  suffices ∀ (evs pre : List Ev) (s : State α), Tracks d s pre → GoodFrom d s evs → Tracks d (runEvs d s evs) (pre ++ evs) by
    have z : Tracks d (zero : State α) [] :=
      ⟨by simp [zero, ideal], by simp, Or.inl (by simp [zero]), by simp, by simp [zero, two32]⟩
    have := this evs [] zero z hg
    simpa only [List.nil_append] using this
  intro evs
  induction evs with
  | nil => intro pre s h _; simpa [runEvs] using h
  | cons e rest ih =>
    intro pre s h hg
    have := ih (pre ++ [e]) (stepEv d s e) (tracks_step d hd hmul s pre e h hg.1 hg.2.1) hg.2.2
    simpa [runEvs] using this

/-- **closed form**: after any good history from the zero value, the transient field is the sum
    of the transient amounts, each decayed by its age at the last transient event, and the
    persistent field is the sum of the persistent amounts modulo 2^32 -/
theorem transient_closed_form (d : Int → α) (hd : Decay d) (hmul : ∀ a b, 0 ≤ a → 0 ≤ b → d (a + b) = d a * d b)
    (evs : List Ev) (hg : GoodFrom d (zero : State α) evs) :
    (runEvs d zero evs).transient = ideal d evs (runEvs d zero evs).lastUnix ∧
    (runEvs d zero evs).persistent = (evs.map (·.p)).sum % two32 :=
  ⟨(tracks_run d hd hmul evs hg).tr, (tracks_run d hd hmul evs hg).pers⟩

/-- **the score over a history**: read at clock `t` within the lifetime of the last transient
    event, the score is `Σ persistent + ⌊Σ transientᵢ · d(t − tᵢ)⌋` (in `uint32`) -/
theorem score_closed_form (d : Int → α) (hd : Decay d) (hmul : ∀ a b, 0 ≤ a → 0 ≤ b → d (a + b) = d a * d b)
    (evs : List Ev) (hg : GoodFrom d (zero : State α) evs) (t : Int)
    (hne : ∃ e ∈ evs, 0 < e.tr)
    (hr : InRange t (runEvs d zero evs).lastUnix)
    (h2 : 0 ≤ t - (runEvs d zero evs).lastUnix) (h3 : t - (runEvs d zero evs).lastUnix ≤ 1800) :
    score d fl (runEvs d zero evs) t = u32 ((evs.map (·.p)).sum % two32 + u32 (fl (ideal d evs t))) := by
  have T := tracks_run d hd hmul evs hg
  have h1 : (1 : α) ≤ (runEvs d zero evs).transient := by
    rcases T.big with hz | hb
    · exfalso
      have ⟨e, he, het⟩ := hne
      have := T.fresh hz e he
      omega
    · linarith
  rw [score_formula d _ t hr h1 h2 h3, T.pers]
  have := ideal_shift d hmul evs _ t T.past (by omega)
  rw [← T.tr] at this
  rw [this]

/-! ### the documented decay function satisfies everything the theorems assume -/

/-- the documented decay: `2^(-t/60)` -/
noncomputable def dReal (t : Int) : ℝ := (2 : ℝ) ^ (-(t : ℝ) / 60)

theorem dReal_decay : Decay dReal := by
  refine ⟨?_, ?_, ?_⟩
  · simp [dReal]
  · intro t _; unfold dReal; positivity
  · intro t ht
    unfold dReal
    apply Real.rpow_le_one_of_one_le_of_nonpos (by norm_num)
    have : (0 : ℝ) ≤ (t : ℝ) := by exact_mod_cast ht
    linarith

theorem dReal_mul (a b : Int) (_ : 0 ≤ a) (_ : 0 ≤ b) : dReal (a + b) = dReal a * dReal b := by
  unfold dReal
  rw [← Real.rpow_add (by norm_num)]
  congr 1
  push_cast; ring

theorem dReal_half : dReal 60 = 1 / 2 := by
  unfold dReal
  have : (-((60 : Int) : ℝ) / 60) = -1 := by norm_num
  rw [this, Real.rpow_neg_one]; norm_num

/-- 60-second half-life of the documented decay -/
theorem dReal_halflife (x : ℝ) (dt : Int) (h : 0 ≤ dt) : x * dReal (dt + 60) = x * dReal dt / 2 :=
  halflife dReal dReal_mul dReal_half x dt h

/-- the closed form for the documented decay over the reals -/
theorem score_closed_form_real (evs : List Ev) (hg : GoodFrom dReal (zero : State ℝ) evs) (t : Int)
    (hne : ∃ e ∈ evs, 0 < e.tr) (hr : InRange t (runEvs dReal zero evs).lastUnix)
    (h2 : 0 ≤ t - (runEvs dReal zero evs).lastUnix) (h3 : t - (runEvs dReal zero evs).lastUnix ≤ 1800) :
    score dReal fl (runEvs dReal zero evs) t = u32 ((evs.map (·.p)).sum % two32 + u32 (fl (ideal dReal evs t))) :=
  score_closed_form dReal dReal_decay dReal_mul evs hg t hne hr h2 h3

/-! ### the hypotheses are satisfiable on non-trivial values (tests, not proofs of the property) -/

example : Decay (fun t : Int => if t = 0 then (1 : ℚ) else 1 / 2) :=
  ⟨by simp, fun t _ => by split <;> norm_num, fun t _ => by split <;> norm_num⟩
example : GoodFrom dReal (zero : State ℝ) [⟨0, 20, 1600000000⟩, ⟨20, 0, 1600000030⟩, ⟨0, 20, 1600000060⟩] := by
  have l1 : (stepEv dReal (zero : State ℝ) ⟨0, 20, 1600000000⟩).lastUnix = 1600000000 := by simp [stepEv, increase]
  have l2 : (stepEv dReal (stepEv dReal (zero : State ℝ) ⟨0, 20, 1600000000⟩) ⟨20, 0, 1600000030⟩).lastUnix = 1600000000 := by
    simp [stepEv, increase]
  refine ⟨?_, Or.inr ⟨by norm_num, Or.inl (by simp [zero])⟩, ?_⟩
  · unfold InRange; simp [zero]
  refine ⟨?_, Or.inl rfl, ?_⟩
  · unfold InRange; rw [l1]; norm_num
  refine ⟨?_, Or.inr ⟨by norm_num, Or.inr ?_⟩, trivial⟩
  · unfold InRange; rw [l2]; norm_num
  · rw [l2]; norm_num
/-- the F21b witness (repaired by 8c2b5a5d): transient 80 stored at t = 1000, one illegal message
    (persistent 20, transient 0) two hours later now returns 20, the documented score -/
example : (increase (fun _ : Int => (1 : ℚ)) fl ⟨1000, 80, 0⟩ 20 0 8200).2 = 20 := by
  have e : elapsed 8200 1000 = 7200 := by unfold elapsed wrapI; norm_num
  simp [increase, score, e, lifetime, u32, two32]
example : InRange 1600000060 1600000000 := by unfold InRange; norm_num

end BytomModel.Props.C35
