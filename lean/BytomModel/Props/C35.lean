/-
C35 — Peer ban scores follow the documented decay rule.

All theorems are about `BytomModel.Model.BanScore` (the model of `DynamicBanScore.int` /
`.increase` that is compared — instantiated with IEEE doubles — with both copies of the
real code on every run), here instantiated with an ARBITRARY linearly ordered field `α`
with a floor function, `trunc x = ⌊x⌋₊`, and an arbitrary decay function `d` satisfying
`Decay d`.  Clock differences are assumed to fit `int64` (`InRange`).
-/
import BytomModel.Model.BanScore
import Mathlib.Algebra.Order.Floor.Semiring
import Mathlib.Algebra.Order.Field.Basic
import Mathlib.Tactic.Linarith
import Mathlib.Tactic.Positivity
import Mathlib.Tactic.NormNum
import Mathlib.Data.Rat.Floor

namespace BytomModel.Props.C35
open BytomModel.Model.BanScore BytomModel.Fixed

set_option linter.unusedSectionVars false

variable {α : Type} [Field α] [LinearOrder α] [IsStrictOrderedRing α] [FloorSemiring α]

/-- Go `uint32(x)` before the reduction modulo 2^32 -/
def fl (x : α) : Nat := ⌊x⌋₊

/-- what the theorems need of `decayFactor` (all true of `2^(-t/60)`, see `Decay.halflife`) -/
structure Decay (d : Int → α) : Prop where
  zero : d 0 = 1
  pos : ∀ t, 0 ≤ t → 0 < d t
  le_one : ∀ t, 0 ≤ t → d t ≤ 1

/-- the clock difference fits `int64` -/
def InRange (t last : Int) : Prop := -(9223372036854775808 : Int) ≤ t - last ∧ t - last < 9223372036854775808

theorem elapsed_eq {t last : Int} (h : InRange t last) : elapsed t last = t - last := by
  unfold InRange at h
  unfold elapsed wrapI
  simp only [Nat.reduceSub, Int.reducePow]
  omega

theorem u32_le (n : Nat) : u32 n ≤ n := Nat.mod_le _ _
theorem u32_lt (n : Nat) : u32 n < two32 := Nat.mod_lt _ (by decide)
theorem u32_id {n : Nat} (h : n < two32) : u32 n = n := Nat.mod_eq_of_lt h

/-! ### the score formula -/

/-- inside the lifetime, with a transient part of at least 1, the score is
    `persistent + ⌊transient · d(t − last)⌋` (both additions in `uint32`) -/
theorem score_formula (d : Int → α) (s : State α) (t : Int) (hr : InRange t s.lastUnix)
    (h1 : 1 ≤ s.transient) (h2 : 0 ≤ t - s.lastUnix) (h3 : t - s.lastUnix ≤ 1800) :
    score d fl s t = u32 (s.persistent + u32 (fl (s.transient * d (t - s.lastUnix)))) := by
  unfold score
  simp only [elapsed_eq hr, lifetime, Nat.cast_one]
  rw [if_neg]
  intro h
  rcases h with h | h | h
  · exact absurd h1 (not_le.mpr h)
  · omega
  · omega

/-- … and exactly `persistent + ⌊transient · d(t − last)⌋` when that fits `uint32` -/
theorem score_formula_nowrap (d : Int → α) (s : State α) (t : Int) (hr : InRange t s.lastUnix)
    (h1 : 1 ≤ s.transient) (h2 : 0 ≤ t - s.lastUnix) (h3 : t - s.lastUnix ≤ 1800)
    (hw : s.persistent + fl (s.transient * d (t - s.lastUnix)) < two32) :
    score d fl s t = s.persistent + fl (s.transient * d (t - s.lastUnix)) := by
  rw [score_formula d s t hr h1 h2 h3, u32_id (n := fl _) (by omega), u32_id hw]

/-- otherwise (no transient part, clock moved backwards, or lifetime over) it is the persistent score -/
theorem score_formula_else (d : Int → α) (s : State α) (t : Int) (hr : InRange t s.lastUnix)
    (h : s.transient < 1 ∨ t - s.lastUnix < 0 ∨ 1800 < t - s.lastUnix) :
    score d fl s t = s.persistent := by
  unfold score
  simp only [elapsed_eq hr, lifetime, Nat.cast_one]
  rw [if_pos h]

/-- the transient part is forgotten after 30 minutes -/
theorem lifetime_forgets (d : Int → α) (s : State α) (t : Int) (hr : InRange t s.lastUnix)
    (h : 1800 < t - s.lastUnix) : score d fl s t = s.persistent :=
  score_formula_else d s t hr (Or.inr (Or.inr h))

/-- the score is a `uint32` value (in particular never negative) -/
theorem score_range (d : Int → α) (s : State α) (t : Int) (hp : s.persistent < two32) : score d fl s t < two32 := by
  unfold score
  dsimp only
  split
  · exact hp
  · exact u32_lt _

/-- the score never exceeds `persistent + ⌊transient · d⌋`, and is at least `persistent` when that sum fits -/
theorem score_bounds (d : Int → α) (hd : Decay d) (s : State α) (t : Int) (hr : InRange t s.lastUnix) (h0 : 0 ≤ s.transient)
    (hw : s.persistent + fl s.transient < two32) :
    s.persistent ≤ score d fl s t ∧ score d fl s t ≤ s.persistent + fl s.transient := by
  unfold score
  simp only [elapsed_eq hr, lifetime, Nat.cast_one]
  split
  · omega
  · rename_i hc
    simp only [not_or, not_lt] at hc
    have hle : fl (s.transient * d (t - s.lastUnix)) ≤ fl s.transient := by
      apply Nat.floor_le_floor
      have := hd.le_one _ hc.2.1
      nlinarith
    rw [u32_id (n := fl _) (by omega), u32_id (by omega)]
    omega

/-- the decay function is consulted only on `[0, Lifetime]` (inside the precomputed table or
    the `math.Exp` branch, never with a negative index) -/
theorem score_congr (d d' : Int → α) (hdd : ∀ x, 0 ≤ x → x ≤ 1800 → d x = d' x) (s : State α) (t : Int) :
    score d fl s t = score d' fl s t := by
  unfold score
  dsimp only
  split
  · rfl
  · rename_i hc
    simp only [not_or, not_lt, lifetime] at hc
    rw [hdd _ hc.2.1 hc.2.2]

theorem increase_congr (d d' : Int → α) (hdd : ∀ x, 0 ≤ x → x ≤ 1800 → d x = d' x) (s : State α) (p tr : Nat) (t : Int) :
    increase d fl s p tr t = increase d' fl s p tr t := by
  have : decayed d s (elapsed t s.lastUnix) = decayed d' s (elapsed t s.lastUnix) := by
    unfold decayed
    split
    · rfl
    · rename_i h1
      split
      · rename_i h2
        simp only [lifetime, not_lt] at h1
        rw [hdd _ (le_of_lt h2.2) h1]
      · rfl
  unfold increase
  simp only [this]

/-! ### half-life -/

/-- an exponential decay with `d 60 = 1/2` halves every 60 seconds: the transient part read
    60 s later is half of what it is now -/
theorem halflife (d : Int → α) (hmul : ∀ a b, 0 ≤ a → 0 ≤ b → d (a + b) = d a * d b) (hhalf : d 60 = 1 / 2)
    (x : α) (dt : Int) (h : 0 ≤ dt) : x * d (dt + 60) = x * d dt / 2 := by
  rw [hmul dt 60 h (by decide), hhalf]; ring

/-! ### increase -/

theorem decayed_nonneg (d : Int → α) (hd : Decay d) (s : State α) (dt : Int) (h0 : 0 ≤ s.transient) :
    0 ≤ decayed d s dt := by
  unfold decayed
  split
  · simp
  · split
    · rename_i h
      have := hd.pos dt (le_of_lt h.2)
      positivity
    · exact h0

/-- the transient field after `increase(_, tr, t)` -/
def newTransient (d : Int → α) (s : State α) (tr : Nat) (t : Int) : α :=
  if 0 < tr then decayed d s (elapsed t s.lastUnix) + (tr : α) else s.transient

omit [IsStrictOrderedRing α] in
theorem increase_transient (d : Int → α) (s : State α) (p tr : Nat) (t : Int) :
    (increase d fl s p tr t).1.transient = newTransient d s tr t := by
  unfold increase newTransient; dsimp only; split <;> rfl

omit [IsStrictOrderedRing α] in
theorem increase_result (d : Int → α) (s : State α) (p tr : Nat) (t : Int) :
    (increase d fl s p tr t).2 = u32 (u32 (s.persistent + p) + u32 (fl (newTransient d s tr t))) := by
  unfold increase newTransient; dsimp only; split <;> rfl

/-- an increase with a transient amount returns exactly the score at that instant -/
theorem increase_returns_score_partial (d : Int → α) (hd : Decay d) (s : State α) (p tr : Nat) (t : Int)
    (h0 : 0 ≤ s.transient) (htr : 0 < tr) :
    (increase d fl s p tr t).2 = score d fl (increase d fl s p tr t).1 t := by
  have hn := decayed_nonneg d hd s (elapsed t s.lastUnix) h0
  have h1 : (1 : α) ≤ decayed d s (elapsed t s.lastUnix) + (tr : α) := by
    have : (1 : α) ≤ (tr : α) := by exact_mod_cast htr
    linarith
  unfold increase score
  simp only [if_pos htr]
  have he : elapsed t t = 0 := by
    unfold elapsed wrapI; simp
  simp only [he, Nat.cast_one, hd.zero, mul_one]
  rw [if_neg]
  intro h
  rcases h with h | h | h
  · exact absurd h1 (not_le.mpr h)
  · omega
  · simp [lifetime] at h

/-- the returned score is the decayed score — at full strength (also for `transient = 0`) -/
def increase_returns_score_full : Prop :=
  ∀ (d : Int → ℚ) (s : State ℚ) (p tr : Nat) (t : Int), Decay d → 0 ≤ s.transient → InRange t s.lastUnix →
    (increase d fl s p tr t).2 = score d fl (increase d fl s p tr t).1 t

/-- F21b: four connection exceptions (transient 80 at t = 1000), one illegal message
    (persistent 20, transient 0) two hours later: `increase` returns 100, the score is 20 -/
theorem increase_returns_score_full_refuted : ¬ increase_returns_score_full := by
  intro h
  have hd : Decay (fun _ : Int => (1 : ℚ)) := ⟨rfl, fun _ _ => by norm_num, fun _ _ => le_refl _⟩
  have := h (fun _ => 1) ⟨1000, 80, 0⟩ 20 0 8200 hd (by norm_num) (by unfold InRange; norm_num)
  have e : elapsed 8200 1000 = 7200 := by unfold elapsed wrapI; norm_num
  have f80 : fl (80 : ℚ) = 80 := by unfold fl; exact_mod_cast Nat.floor_natCast (R := ℚ) 80
  simp [increase, score, e, lifetime, u32, two32, f80] at this

/-- each increase raises the score at that instant by at least the added persistent amount —
    provided the `uint32` sums do not wrap -/
theorem monotone_in_persistent_partial (d : Int → α) (hd : Decay d) (s : State α) (p tr : Nat) (t : Int)
    (hr : InRange t s.lastUnix) (h0 : 0 ≤ s.transient)
    (hw : s.persistent + p + fl (increase d fl s p tr t).1.transient < two32) :
    score d fl s t + p ≤ (increase d fl s p tr t).2 := by
  rw [increase_transient] at hw
  -- the returned value without wrap
  have hret : (increase d fl s p tr t).2 = s.persistent + p + fl (newTransient d s tr t) := by
    rw [increase_result, u32_id (n := s.persistent + p) (by omega), u32_id (n := fl _) (by omega), u32_id (by omega)]
  rw [hret]
  -- the score before is at most persistent + ⌊transient·d⌋ ≤ persistent + ⌊new transient⌋
  unfold score
  simp only [elapsed_eq hr, lifetime, Nat.cast_one]
  split
  · omega
  · rename_i hc
    simp only [not_or, not_lt] at hc
    have hdle := hd.le_one _ hc.2.1
    have hdpos := hd.pos _ hc.2.1
    have key : fl (s.transient * d (t - s.lastUnix)) ≤ fl (newTransient d s tr t) := by
      apply Nat.floor_le_floor
      unfold newTransient
      simp only [elapsed_eq hr]
      split
      · rename_i htr
        have : (0 : α) ≤ (tr : α) := Nat.cast_nonneg _
        unfold decayed
        rw [if_neg (by simp only [lifetime]; omega)]
        split
        · linarith
        · nlinarith
      · nlinarith
    have := u32_le (s.persistent + u32 (fl (s.transient * d (t - s.lastUnix))))
    have := u32_le (fl (s.transient * d (t - s.lastUnix)))
    omega

/-- … at full strength (no side condition) -/
def monotone_in_persistent_full : Prop :=
  ∀ (d : Int → ℚ) (s : State ℚ) (p tr : Nat) (t : Int), Decay d → 0 ≤ s.transient → s.persistent < two32 → p < two32 →
    InRange t s.lastUnix → score d fl s t + p ≤ (increase d fl s p tr t).2

/-- F21: persistent 2^32 − 1, `increase(1, 0, t)` returns 0 -/
theorem monotone_in_persistent_full_refuted : ¬ monotone_in_persistent_full := by
  intro h
  have hd : Decay (fun _ : Int => (1 : ℚ)) := ⟨rfl, fun _ _ => by norm_num, fun _ _ => le_refl _⟩
  have := h (fun _ => 1) ⟨0, 0, 4294967295⟩ 1 0 10 hd (by norm_num) (by decide) (by decide) (by unfold InRange; norm_num)
  have f0 : fl (0 : ℚ) = 0 := by unfold fl; simp
  simp [increase, score, u32, two32, f0] at this

/-- the persistent part is the `uint32` sum of the added amounts, untouched by time -/
theorem increase_persistent (d : Int → α) (s : State α) (p tr : Nat) (t : Int) :
    (increase d fl s p tr t).1.persistent = u32 (s.persistent + p) := by
  unfold increase; simp only; split <;> rfl

/-! ### the hypotheses are satisfiable on non-trivial values (tests, not proofs of the property) -/

example : Decay (fun t : Int => if t = 0 then (1 : ℚ) else 1 / 2) :=
  ⟨by simp, fun t _ => by split <;> norm_num, fun t _ => by split <;> norm_num⟩
example : InRange 1600000060 1600000000 := by unfold InRange; norm_num

end BytomModel.Props.C35
