import BytomModel.Model.BanScore
namespace BytomModel.Props.C35
open BytomModel.Model.BanScore

theorem placeholder_u32 : u32 two32 = 0 := by decide

end BytomModel.Props.C35
