/-
C21 — store caches are transparent.

Model: `Model/Store.lean` (database/store.go, store_checkpoint.go, cache.go as they are NOW:
after fa651dae `GetCheckpoint` answers with a copy, after 941b4124 `SaveBlock` invalidates the
header cache). A history is a list of `Op`s from `NewStore` over the empty DB;
`freshAnswer caps s rd` is what a NEW store (any LRU capacities) over the same DB answers.

* `cache_ok_invariant` — for ALL histories in which a block hash determines its transaction list
  (`GoodRun`; statically: `TxsDetermined`, `goodRun_of_txsDetermined`) every entry of the five
  caches equals the decoded DB record, and cached checkpoints carry no SupLinks of their own.
* **`cache_transparent`** (= `c21_full_holds`) — EVERY operation, in particular every read
  (headers, block transactions, hash lists, main-chain hashes, blocks, `GetCheckpoint`,
  `GetCheckpointsByHeight`) answers on the long-lived store exactly what a new store with any
  capacities over the same DB answers.
* **`read_idempotent`** — no read changes the DB or what any later read returns.
* The witnesses of the repaired F11 / S21 are `example`s that now satisfy the property.
* `c21_txs_hypothesis_needed` — the hypothesis is not vacuous: `SaveBlock` does not invalidate the
  transactions cache, which is sound only because a hash commits to the transactions.
-/
import BytomModel.Lemmas.StoreWrites

namespace BytomModel.Props.C21
open BytomModel.Store BytomModel.Lemmas.Store

def IsRead : Op → Prop
  | .hdr _ | .txs _ | .hashes _ | .main _ | .block _ | .ckpt _ | .ckptsAt _ => True
  | _ => False

/-- **invariant, all histories**: every cached entry equals the DB record -/
theorem cache_ok_invariant (caps : Caps) (ops : List Op) (hg : GoodRun (Store.fresh caps DB.empty) ops) :
    CacheOK (runFrom (Store.fresh caps DB.empty) ops) :=
  runFrom_ok ops (cacheOK_fresh caps DB.empty (fun _ _ h => by simp [DB.empty, aGet] at h)) hg

/-- the answer of an operation is a function of the DB alone -/
def pureAnswer (db : DB) : Op → Out
  | .hdr b => match aGet db.hdr b with | none => .err | some h => .hdr h
  | .txs b => match aGet db.txs b with | none => .err | some t => .ids t
  | .hashes h => .ids ((aGet db.hashes h).getD [])
  | .main h => match aGet db.main h with | none => .err | some b => .id b
  | .block b => match pureBlock db b with | none => .err | some (h, t) => .block h t
  | .ckpt b => match pureCkpt db b with | none => .err | some o => .ckpt o
  | .ckptsAt h =>
    let recs := (db.ckpt.filter (fun e => e.1.1 = h)).map Prod.snd
    let sorted := (recs.map (fun c => (⟨c, []⟩ : CkptObj))).foldr insertByHash []
    match pureLoad db (sorted.map (·.c)) with | none => .err | some l => .ckpts l
  | _ => .ok

theorem answer_eq_pure {s : Store} (ok : CacheOK s) (rd : Op) : (step s rd).2 = pureAnswer s.db rd := by
  cases rd with
  | hdr b =>
    have h := (getHeader_spec ok b).1
    simp only [step, pureAnswer]
    cases hh : getHeader s b with
    | mk r s' => rw [hh] at h; simp only at h; rw [← h]; cases r <;> rfl
  | txs b =>
    have h := (getTxs_spec ok b).1
    simp only [step, pureAnswer]
    cases hh : getTxs s b with
    | mk r s' => rw [hh] at h; simp only at h; rw [← h]; cases r <;> rfl
  | hashes h' =>
    have h := (getHashes_spec ok h').1
    simp only [step, pureAnswer]
    rw [h]
  | main h' =>
    have h := (getMain_spec ok h').1
    simp only [step, pureAnswer]
    cases hh : getMain s h' with
    | mk r s' => rw [hh] at h; simp only at h; rw [← h]; cases r <;> rfl
  | block b =>
    have h := (getBlock_spec ok b).1
    simp only [step, pureAnswer]
    cases hh : getBlock s b with
    | mk r s' =>
      rw [hh] at h; simp only at h; rw [← h]
      cases r with
      | none => rfl
      | some p => cases p; rfl
  | ckpt b =>
    have h := (getCheckpoint_spec ok b).1
    simp only [step, pureAnswer]
    cases hh : getCheckpoint s b with
    | mk r s' => rw [hh] at h; simp only at h; rw [← h]; cases r <;> rfl
  | ckptsAt h' =>
    simp only [step, pureAnswer, getCheckpointsByHeight]
    have h := (loadCkpts_spec
      (((((s.db.ckpt.filter (fun e => e.1.1 = h')).map Prod.snd).map (fun c => (⟨c, []⟩ : CkptObj))).foldr
        insertByHash []).map (·.c)) ok).1
    cases hh : loadCkpts s
      (((((s.db.ckpt.filter (fun e => e.1.1 = h')).map Prod.snd).map (fun c => (⟨c, []⟩ : CkptObj))).foldr
        insertByHash []).map (·.c)) with
    | mk r s' => rw [hh] at h; simp only at h; rw [← h]; cases r <;> rfl
  | saveBlock _ _ => rfl
  | saveHeader _ => rfl
  | saveStatus _ => rfl
  | saveCkpts _ => rfl

/-- **C21 (transparency), full strength.** After any history in which a hash determines its
    transactions, any operation on the long-lived store answers exactly what a new store (with
    any capacities) over the same DB answers. -/
theorem cache_transparent (caps caps' : Caps) (ops : List Op) (hg : GoodRun (Store.fresh caps DB.empty) ops)
    (rd : Op) :
    (step (runFrom (Store.fresh caps DB.empty) ops) rd).2
      = freshAnswer caps' (runFrom (Store.fresh caps DB.empty) ops) rd := by
  have ok := cache_ok_invariant caps ops hg
  unfold freshAnswer
  rw [answer_eq_pure ok rd, answer_eq_pure (cacheOK_fresh caps' _ ok.keyed) rd]
  rfl

theorem read_keeps_db {s : Store} (ok : CacheOK s) (r : Op) (hr : IsRead r) : (step s r).1.db = s.db := by
  cases r with
  | hdr b => rw [step_hdr_fst]; exact (getHeader_spec ok b).2.2
  | txs b => rw [step_txs_fst]; exact (getTxs_spec ok b).2.2
  | hashes h => exact (getHashes_spec ok h).2.2
  | main h => rw [step_main_fst]; exact (getMain_spec ok h).2.2
  | block b => rw [step_block_fst]; exact (getBlock_spec ok b).2.2
  | ckpt b => rw [step_ckpt_fst]; exact (getCheckpoint_spec ok b).2.2
  | ckptsAt h => rw [step_ckptsAt_fst]; exact (getCheckpointsByHeight_spec ok h).2
  | saveBlock _ _ => exact absurd hr id
  | saveHeader _ => exact absurd hr id
  | saveStatus _ => exact absurd hr id
  | saveCkpts _ => exact absurd hr id

/-- **C21 (repeated reads), full strength.** No read changes what a later operation returns. -/
theorem read_idempotent (caps : Caps) (ops : List Op) (hg : GoodRun (Store.fresh caps DB.empty) ops)
    (r1 r2 : Op) (h1 : IsRead r1) :
    let s := runFrom (Store.fresh caps DB.empty) ops
    (step (step s r1).1 r2).2 = (step s r2).2 := by
  intro s
  have ok : CacheOK s := cache_ok_invariant caps ops hg
  have hc : Compatible s r1 := by cases r1 <;> first | trivial | exact absurd h1 id
  have ok1 : CacheOK (step s r1).1 := step_ok ok r1 hc
  rw [answer_eq_pure ok1 r2, answer_eq_pure ok r2, read_keeps_db ok r1 h1]

/-! ### the hypothesis, statically: a hash determines its transaction list -/

/-- every `SaveBlock` of the history stores the transaction list `f` assigns to the hash -/
def TxsDetermined (f : Nat → List Nat) (ops : List Op) : Prop :=
  ∀ op ∈ ops, match op with
    | .saveBlock h t => t = f h.hash
    | _ => True

theorem step_txs_table {s : Store} (ok : CacheOK s) (op : Op) :
    (step s op).1.db.txs = match op with
      | .saveBlock h t => aSet s.db.txs h.hash t
      | _ => s.db.txs := by
  cases op with
  | saveBlock h t =>
    simp only [step, saveBlock]
    have d := (getHashes_spec ok h.height).2.2
    cases hh : getHashes s h.height with
    | mk l s1 => rw [hh] at d; simp only at d ⊢; rw [d]
  | saveHeader h => rfl
  | saveStatus hs => rfl
  | saveCkpts cs => rfl
  | hdr b => rw [read_keeps_db ok (.hdr b) trivial]
  | txs b => rw [read_keeps_db ok (.txs b) trivial]
  | hashes h => rw [read_keeps_db ok (.hashes h) trivial]
  | main h => rw [read_keeps_db ok (.main h) trivial]
  | block b => rw [read_keeps_db ok (.block b) trivial]
  | ckpt b => rw [read_keeps_db ok (.ckpt b) trivial]
  | ckptsAt h => rw [read_keeps_db ok (.ckptsAt h) trivial]

theorem goodRun_of_txsDetermined (f : Nat → List Nat) : ∀ (ops : List Op) (s : Store), CacheOK s →
    (∀ b t, aGet s.db.txs b = some t → t = f b) → TxsDetermined f ops → GoodRun s ops
  | [], _, _, _, _ => trivial
  | op :: ops, s, ok, hdb, hops => by
    have hop := hops op (by simp)
    have hc : Compatible s op := by
      cases op with
      | saveBlock h t =>
        intro t0 ht0
        simp only at hop
        rw [hop, hdb _ _ ht0]
      | _ => trivial
    refine ⟨hc, goodRun_of_txsDetermined f ops _ (step_ok ok op hc) ?_ (fun o ho => hops o (List.mem_cons_of_mem _ ho))⟩
    intro b t hbt
    rw [step_txs_table ok op] at hbt
    cases op with
    | saveBlock h t' =>
      simp only at hbt hop
      rw [aGet_aSet] at hbt
      by_cases e : b = h.hash
      · simp only [e, if_true, Option.some.injEq] at hbt
        rw [← hbt, hop, e]
      · simp only [e, if_false] at hbt
        exact hdb b t hbt
    | _ => exact hdb b t hbt

/-- **C21 as stated**, for every history over a universe in which a hash determines its
    transactions: any operation answers as a new store does, and reads are idempotent. -/
theorem c21_full_holds (f : Nat → List Nat) (caps caps' : Caps) (ops : List Op) (hops : TxsDetermined f ops)
    (rd : Op) :
    let s := runFrom (Store.fresh caps DB.empty) ops
    (step s rd).2 = freshAnswer caps' s rd ∧
    ∀ r1, IsRead r1 → (step (step s r1).1 rd).2 = (step s rd).2 := by
  have hg : GoodRun (Store.fresh caps DB.empty) ops :=
    goodRun_of_txsDetermined f ops _ (cacheOK_fresh caps DB.empty (fun _ _ h => by simp [DB.empty, aGet] at h))
      (fun _ _ h => by simp [Store.fresh, DB.empty, aGet] at h) hops
  exact ⟨cache_transparent caps caps' ops hg rd, fun r1 h1 => read_idempotent caps ops hg r1 rd h1⟩

/-! the hypotheses are satisfiable on a non-trivial history (tests by evaluation) -/

def wOps : List Op :=
  [.saveBlock ⟨1, 1, 0, [7]⟩ [10], .hdr 1, .saveHeader ⟨1, 1, 2, [7, 8]⟩, .saveBlock ⟨2, 1, 0, []⟩ [],
   .hashes 1, .saveStatus [⟨1, 1, 0, []⟩], .main 1, .saveStatus [⟨2, 1, 0, []⟩], .saveCkpts [⟨1, 1, 2⟩], .ckpt 1,
   .saveBlock ⟨1, 1, 1, [9]⟩ [10], .ckpt 1]

example : GoodRun (Store.fresh ⟨1, 1, 1, 1, 1⟩ DB.empty) wOps := by decide
example : TxsDetermined (fun b => if b = 1 then [10] else []) wOps := by
  intro op h
  simp only [wOps, List.mem_cons, List.mem_nil_iff, or_false] at h
  rcases h with h | h | h | h | h | h | h | h | h | h | h | h <;> subst h <;> simp
example : (step (runFrom (Store.fresh ⟨1, 1, 1, 1, 1⟩ DB.empty) wOps) (.ckpt 1)).2 = .ckpt ⟨⟨1, 1, 2⟩, [9]⟩ := by decide

/-! ### witnesses of the repaired defects: they satisfy the property now -/

def caps0 : Caps := ⟨0, 0, 0, 0, 0⟩

/-- F11 (fixed fa651dae): the second and third `GetCheckpoint` answer like a new store -/
example :
    let s := runFrom (Store.fresh caps0 DB.empty) [.saveBlock ⟨1, 1, 0, [7]⟩ [10], .saveCkpts [⟨1, 1, 2⟩], .ckpt 1, .ckpt 1]
    (step s (.ckpt 1)).2 = freshAnswer caps0 s (.ckpt 1) ∧ (step s (.ckpt 1)).2 = .ckpt ⟨⟨1, 1, 2⟩, [7]⟩ := by decide

/-- S21 (fixed 941b4124): a second `SaveBlock` of a cached hash with other SupLinks is visible at once -/
example :
    let s := runFrom (Store.fresh caps0 DB.empty) [.saveBlock ⟨1, 1, 0, []⟩ [10], .hdr 1, .saveBlock ⟨1, 1, 1, [7, 8]⟩ [10]]
    (step s (.hdr 1)).2 = freshAnswer caps0 s (.hdr 1) ∧ (step s (.hdr 1)).2 = .hdr ⟨1, 1, 1, [7, 8]⟩ := by decide

/-! ### the remaining hypothesis is not vacuous -/

/-- without "a hash determines its transactions" the transactions cache (never invalidated by
    `SaveBlock`) would be observable -/
theorem c21_txs_hypothesis_needed :
    ¬ ∀ (ops : List Op) (rd : Op),
        let s := runFrom (Store.fresh caps0 DB.empty) ops
        (step s rd).2 = freshAnswer caps0 s rd := by
  intro h
  have := h [.saveBlock ⟨1, 1, 0, []⟩ [10], .txs 1, .saveBlock ⟨1, 1, 0, []⟩ [11]] (.txs 1)
  revert this
  decide

end BytomModel.Props.C21
