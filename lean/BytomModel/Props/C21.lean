/-
C21 — store caches are transparent (first milestone: refutation witness F11; the invariant
proof follows).
-/
import BytomModel.Model.Store

namespace BytomModel.Props.C21
open BytomModel.Store

def caps0 : Caps := ⟨0, 0, 0, 0, 0⟩

/-- the property as stated: after any interleaving, any read on the long-lived store answers
    what a new store over the same DB answers -/
def c21_full : Prop :=
  ∀ (ops : List Op) (rd : Op),
    let s := runFrom (Store.fresh caps0 DB.empty) ops
    (step s rd).2 = freshAnswer caps0 s rd

/-- F11: the second `GetCheckpoint` returns the header's SupLinks twice -/
theorem c21_full_refuted : ¬ c21_full := by
  intro h
  have := h [.saveBlock ⟨1, 1, 0, [7]⟩ [10], .saveCkpts [⟨1, 1, 2⟩], .ckpt 1] (.ckpt 1)
  revert this
  decide

end BytomModel.Props.C21
