/-
C21 — store caches are transparent.

Model: `Model/Store.lean` (database/store.go, store_checkpoint.go, cache.go as they are).
A history is a list of `Op`s from `NewStore` over the empty DB; `freshAnswer caps s rd` is what a
NEW store (any LRU capacities) over the same DB answers to the read `rd`.

* `cache_ok_invariant` — for ALL histories whose `SaveBlock`s do not re-write a stored hash with
  different content (`GoodRun`), every entry of the five caches equals the decoded DB record.
* `cache_transparent` — hence headers, block transactions, hash lists, main-chain hashes, whole
  blocks and `GetCheckpointsByHeight` read through the long-lived store equal the fresh reads, for
  any capacities and any eviction order; `read_idempotent` — no read (including `GetCheckpoint`)
  changes the DB or what these later reads return.
* `checkpoint_fields_transparent` — `GetCheckpoint` is transparent in the persisted fields.
* The property as stated is REFUTED: `c21_full_refuted` (F11: `GetCheckpoint` lengthens the cached
  `SupLinks` on every read), `c21_read_idempotent_refuted` (a checkpoint read changes the next
  checkpoint read), `c21_saveblock_refuted` (S21: `SaveBlock` does not invalidate the header
  cache, so the `GoodRun` hypothesis cannot be dropped).
-/
import BytomModel.Lemmas.StoreWrites

namespace BytomModel.Props.C21
open BytomModel.Store BytomModel.Lemmas.Store

/-- the reads that are transparent for the code as it is -/
def TransparentRead : Op → Prop
  | .hdr _ | .txs _ | .hashes _ | .main _ | .block _ | .ckptsAt _ => True
  | _ => False

def IsRead : Op → Prop
  | .hdr _ | .txs _ | .hashes _ | .main _ | .block _ | .ckpt _ | .ckptsAt _ => True
  | _ => False

/-- **invariant, all histories**: every cached entry equals the DB record -/
theorem cache_ok_invariant (caps : Caps) (ops : List Op) (hg : GoodRun (Store.fresh caps DB.empty) ops) :
    CacheOK (runFrom (Store.fresh caps DB.empty) ops) :=
  runFrom_ok ops (cacheOK_fresh caps DB.empty (fun _ _ h => by simp [DB.empty, aGet] at h)) hg

/-- the answer of a transparent read is a function of the DB alone -/
def pureAnswer (db : DB) : Op → Out
  | .hdr b => match aGet db.hdr b with | none => .err | some h => .hdr h
  | .txs b => match aGet db.txs b with | none => .err | some t => .ids t
  | .hashes h => .ids ((aGet db.hashes h).getD [])
  | .main h => match aGet db.main h with | none => .err | some b => .id b
  | .block b => match pureBlock db b with | none => .err | some (h, t) => .block h t
  | .ckptsAt h =>
    let recs := (db.ckpt.filter (fun e => e.1.1 = h)).map Prod.snd
    let sorted := (recs.map (fun c => (⟨c, []⟩ : CkptObj))).foldr insertByHash []
    match pureLoad db (sorted.map (·.c)) with | none => .err | some l => .ckpts l
  | _ => .ok

theorem answer_eq_pure {s : Store} (ok : CacheOK s) (rd : Op) (hr : TransparentRead rd) :
    (step s rd).2 = pureAnswer s.db rd := by
  cases rd with
  | hdr b =>
    have h := (getHeader_spec ok b).1
    simp only [step, pureAnswer]
    cases hh : getHeader s b with
    | mk r s' => rw [hh] at h; simp only at h; rw [← h]; cases r <;> rfl
  | txs b =>
    have h := (getTxs_spec ok b).1
    simp only [step, pureAnswer]
    cases hh : getTxs s b with
    | mk r s' => rw [hh] at h; simp only at h; rw [← h]; cases r <;> rfl
  | hashes h' =>
    have h := (getHashes_spec ok h').1
    simp only [step, pureAnswer]
    rw [h]
  | main h' =>
    have h := (getMain_spec ok h').1
    simp only [step, pureAnswer]
    cases hh : getMain s h' with
    | mk r s' => rw [hh] at h; simp only at h; rw [← h]; cases r <;> rfl
  | block b =>
    have h := (getBlock_spec ok b).1
    simp only [step, pureAnswer]
    cases hh : getBlock s b with
    | mk r s' =>
      rw [hh] at h; simp only at h; rw [← h]
      cases r with
      | none => rfl
      | some p => cases p; rfl
  | ckptsAt h' =>
    simp only [step, pureAnswer, getCheckpointsByHeight]
    have h := (loadCkpts_spec
      (((((s.db.ckpt.filter (fun e => e.1.1 = h')).map Prod.snd).map (fun c => (⟨c, []⟩ : CkptObj))).foldr
        insertByHash []).map (·.c)) ok).1
    cases hh : loadCkpts s
      (((((s.db.ckpt.filter (fun e => e.1.1 = h')).map Prod.snd).map (fun c => (⟨c, []⟩ : CkptObj))).foldr
        insertByHash []).map (·.c)) with
    | mk r s' => rw [hh] at h; simp only at h; rw [← h]; cases r <;> rfl
  | saveBlock _ _ => exact absurd hr id
  | saveHeader _ => exact absurd hr id
  | saveStatus _ => exact absurd hr id
  | saveCkpts _ => exact absurd hr id
  | ckpt _ => exact absurd hr id

/-- **C21, partial (transparency).** After any `GoodRun` history, a header / transactions /
    hash-list / main-chain / block / checkpoints-by-height read on the long-lived store answers
    exactly what a new store (with any capacities) over the same DB answers. -/
theorem cache_transparent (caps caps' : Caps) (ops : List Op) (hg : GoodRun (Store.fresh caps DB.empty) ops)
    (rd : Op) (hr : TransparentRead rd) :
    (step (runFrom (Store.fresh caps DB.empty) ops) rd).2
      = freshAnswer caps' (runFrom (Store.fresh caps DB.empty) ops) rd := by
  have ok := cache_ok_invariant caps ops hg
  unfold freshAnswer
  rw [answer_eq_pure ok rd hr, answer_eq_pure (cacheOK_fresh caps' _ ok.keyed) rd hr]
  rfl

theorem read_keeps_db {s : Store} (ok : CacheOK s) (r : Op) (hr : IsRead r) : (step s r).1.db = s.db := by
  cases r with
  | hdr b => rw [step_hdr_fst]; exact (getHeader_spec ok b).2.2
  | txs b => rw [step_txs_fst]; exact (getTxs_spec ok b).2.2
  | hashes h => exact (getHashes_spec ok h).2.2
  | main h => rw [step_main_fst]; exact (getMain_spec ok h).2.2
  | block b => rw [step_block_fst]; exact (getBlock_spec ok b).2.2
  | ckpt b => rw [step_ckpt_fst]; exact (getCheckpoint_spec ok b).2.2
  | ckptsAt h => rw [step_ckptsAt_fst]; exact (getCheckpointsByHeight_spec ok h).2
  | saveBlock _ _ => exact absurd hr id
  | saveHeader _ => exact absurd hr id
  | saveStatus _ => exact absurd hr id
  | saveCkpts _ => exact absurd hr id

/-- **C21, partial (repeated reads).** No read — `GetCheckpoint` included — changes what a later
    transparent read returns. -/
theorem read_idempotent (caps : Caps) (ops : List Op) (hg : GoodRun (Store.fresh caps DB.empty) ops)
    (r1 r2 : Op) (h1 : IsRead r1) (h2 : TransparentRead r2) :
    let s := runFrom (Store.fresh caps DB.empty) ops
    (step (step s r1).1 r2).2 = (step s r2).2 := by
  intro s
  have ok : CacheOK s := cache_ok_invariant caps ops hg
  have hc : Compatible s r1 := by cases r1 <;> first | trivial | exact absurd h1 id
  have ok1 : CacheOK (step s r1).1 := step_ok ok r1 hc
  rw [answer_eq_pure ok1 r2 h2, answer_eq_pure ok r2 h2, read_keeps_db ok r1 h1]

/-- **C21, partial (checkpoints).** The persisted fields returned by `GetCheckpoint` are those a
    new store returns; only `SupLinks` can differ. -/
theorem checkpoint_fields_transparent (caps caps' : Caps) (ops : List Op)
    (hg : GoodRun (Store.fresh caps DB.empty) ops) (b : Nat) :
    let s := runFrom (Store.fresh caps DB.empty) ops
    (getCheckpoint s b).1.map (·.c) = (getCheckpoint (Store.fresh caps' s.db) b).1.map (·.c) := by
  intro s
  have ok : CacheOK s := cache_ok_invariant caps ops hg
  rw [(getCheckpoint_spec ok b).1, (getCheckpoint_spec (cacheOK_fresh caps' _ ok.keyed) b).1]
  rfl

/-! the hypotheses are satisfiable on a non-trivial history (tests by evaluation) -/

def wOps : List Op :=
  [.saveBlock ⟨1, 1, 0, [7]⟩ [10], .hdr 1, .saveHeader ⟨1, 1, 2, [7, 8]⟩, .saveBlock ⟨2, 1, 0, []⟩ [],
   .hashes 1, .saveStatus [⟨1, 1, 0, []⟩], .main 1, .saveStatus [⟨2, 1, 0, []⟩], .saveCkpts [⟨1, 1, 2⟩], .ckpt 1]

example : GoodRun (Store.fresh ⟨1, 1, 1, 1, 1⟩ DB.empty) wOps := by decide
example : (step (runFrom (Store.fresh ⟨1, 1, 1, 1, 1⟩ DB.empty) wOps) (.main 1)).2 = .id 2 := by decide

/-! ### the full statement and its refutations -/

def caps0 : Caps := ⟨0, 0, 0, 0, 0⟩

/-- the property as stated: after any interleaving, any read on the long-lived store answers
    what a new store over the same DB answers -/
def c21_full : Prop :=
  ∀ (ops : List Op) (rd : Op),
    let s := runFrom (Store.fresh caps0 DB.empty) ops
    (step s rd).2 = freshAnswer caps0 s rd

/-- F11: the second `GetCheckpoint` returns the header's SupLinks twice (the history is a
    `GoodRun`: one block saved once) -/
theorem c21_full_refuted : ¬ c21_full := by
  intro h
  have := h [.saveBlock ⟨1, 1, 0, [7]⟩ [10], .saveCkpts [⟨1, 1, 2⟩], .ckpt 1] (.ckpt 1)
  revert this
  decide

/-- F11 as a failure of "repeated reads do not change what later reads return" -/
theorem c21_read_idempotent_refuted :
    ¬ ∀ (ops : List Op) (r1 r2 : Op), IsRead r1 → IsRead r2 →
        let s := runFrom (Store.fresh caps0 DB.empty) ops
        (step (step s r1).1 r2).2 = (step s r2).2 := by
  intro h
  have := h [.saveBlock ⟨1, 1, 0, [7]⟩ [10], .saveCkpts [⟨1, 1, 2⟩]] (.ckpt 1) (.ckpt 1) trivial trivial
  revert this
  decide

/-- S21: `SaveBlock` of an already cached hash with other SupLinks leaves the old header in the
    cache — without `GoodRun` even header reads are not transparent -/
theorem c21_saveblock_refuted :
    ¬ ∀ (ops : List Op) (rd : Op), TransparentRead rd →
        let s := runFrom (Store.fresh caps0 DB.empty) ops
        (step s rd).2 = freshAnswer caps0 s rd := by
  intro h
  have := h [.saveBlock ⟨1, 1, 0, []⟩ [10], .hdr 1, .saveBlock ⟨1, 1, 1, [7, 8]⟩ [10]] (.hdr 1) trivial
  revert this
  decide

end BytomModel.Props.C21
