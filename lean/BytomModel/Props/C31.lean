/-
C31 — Checked arithmetic is exact.

Every theorem below is about `BytomModel.Gen.Checked`, which is REGENERATED from
`/repo/math/checked/checked.go` by `/verif/gen` before each build: the statements are
fixed here, the definitions they talk about are whatever the Go source says today.

`Exact fits v r` is the property's reading for one call: when the mathematically exact
result `v` exists and fits the type, the call returns `(v, true)`; otherwise `(0, false)`
(so in particular never a wrapped value with `true`).
-/
import BytomModel.Gen.Checked
import BytomModel.Lemmas.Arith

namespace BytomModel.Props.C31
open BytomModel.Fixed BytomModel.Gen.Checked BytomModel.Lemmas.Arith

def Exact (fits : Int → Prop) (v : Option Int) (r : Int × Bool) : Prop :=
  match v with
  | some x => (fits x → r = (x, true)) ∧ (¬ fits x → r = (0, false))
  | none => r = (0, false)

theorem exact_of {fits : Int → Prop} {v : Int} {r : Int × Bool} (guard : Prop) [Decidable guard] (val : Int)
    (hr : r = if guard then (0, false) else (val, true))
    (hg : guard ↔ ¬ fits v) (hv : ¬ guard → val = v) : Exact fits (some v) r := by
  unfold Exact
  subst hr
  by_cases g : guard
  · simp [g, hg.mp g]
  · have : fits v := by
      by_contra h; exact g (hg.mpr h)
    simp [g, this, hv g]

/-- exact quotient: undefined for a zero divisor -/
def exDiv (a b : Int) : Option Int := if b = 0 then none else some (Int.tdiv a b)
/-- exact remainder (sign of the dividend, as Go defines `%`) -/
def exMod (a b : Int) : Option Int := if b = 0 then none else some (Int.tmod a b)
/-- exact shift: defined for shift counts inside the type's width -/
def exShl (w : Int) (a b : Int) : Option Int := if 0 ≤ b ∧ b < w then some (a * 2 ^ b.toNat) else none


/-! ### int64 -/

theorem addInt64_exact (a b : Int) (ha : inI 64 a) (hb : inI 64 b) :
    Exact (inI 64) (some (a + b)) (AddInt64 a b) := by
  unfold inI at ha hb
  unfold Exact AddInt64 inI wrapI
  simp only [Nat.reduceSub, Int.reducePow] at *
  refine ⟨fun h => ?_, fun h => ?_⟩ <;> split <;> first | rfl | (exfalso; omega) | (congr 1; omega)

theorem subInt64_exact (a b : Int) (ha : inI 64 a) (hb : inI 64 b) :
    Exact (inI 64) (some (a - b)) (SubInt64 a b) := by
  unfold inI at ha hb
  unfold Exact SubInt64 inI wrapI
  simp only [Nat.reduceSub, Int.reducePow] at *
  refine ⟨fun h => ?_, fun h => ?_⟩ <;> split <;> first | rfl | (exfalso; omega) | (congr 1; omega)

theorem mulInt64_exact (a b : Int) (ha : inI 64 a) (hb : inI 64 b) :
    Exact (inI 64) (some (a * b)) (MulInt64 a b) := by
  have ha' : -(9223372036854775808:Int) ≤ a ∧ a < 9223372036854775808 := by unfold inI at ha; simpa using ha
  have hb' : -(9223372036854775808:Int) ≤ b ∧ b < 9223372036854775808 := by unfold inI at hb; simpa using hb
  have hg := mul_guard 9223372036854775808 a b (by decide) ha' hb'
  -- the wraps around the quotients inside the guard are identities
  have w1 : b ≠ 0 → wrapI 64 (goDiv 9223372036854775807 b) = Int.tdiv (9223372036854775808 - 1) b := by
    intro h0
    have := tdiv_bounds 9223372036854775807 b 9223372036854775808 (by decide) (by decide) h0 (by omega)
    rw [wrapI_id 64 _ (by decide) (by unfold inI; simpa using this)]; rfl
  have w2 : 0 < a → wrapI 64 (goDiv (-9223372036854775808) a) = Int.tdiv (-9223372036854775808) a := by
    intro h0
    have := tdiv_bounds (-9223372036854775808) a 9223372036854775808 (by decide) (by decide) (by omega) (by omega)
    rw [wrapI_id 64 _ (by decide) (by unfold inI; simpa using this)]
  have w3 : 0 < b → wrapI 64 (goDiv (-9223372036854775808) b) = Int.tdiv (-9223372036854775808) b := by
    intro h0
    have := tdiv_bounds (-9223372036854775808) b 9223372036854775808 (by decide) (by decide) (by omega) (by omega)
    rw [wrapI_id 64 _ (by decide) (by unfold inI; simpa using this)]
  have w4 : a ≠ 0 → wrapI 64 (goDiv 9223372036854775807 a) = Int.tdiv (9223372036854775808 - 1) a := by
    intro h0
    have := tdiv_bounds 9223372036854775807 a 9223372036854775808 (by decide) (by decide) h0 (by omega)
    rw [wrapI_id 64 _ (by decide) (by unfold inI; simpa using this)]; rfl
  apply exact_of ((((((a > 0) ∧ (b > 0)) ∧ (a > (wrapI 64 (goDiv 9223372036854775807 b)))) ∨ (((a > 0) ∧ (b ≤ 0)) ∧ (b < (wrapI 64 (goDiv (-9223372036854775808) a))))) ∨ (((a ≤ 0) ∧ (b > 0)) ∧ (a < (wrapI 64 (goDiv (-9223372036854775808) b))))) ∨ (((a < 0) ∧ (b ≤ 0)) ∧ (b < (wrapI 64 (goDiv 9223372036854775807 a))))) (wrapI 64 (a * b))
  · rfl
  · have e : (inI 64 (a * b)) ↔ (-(9223372036854775808:Int) ≤ a * b ∧ a * b < 9223372036854775808) := by unfold inI; simp
    rw [e, ← hg]
    constructor
    · rintro (((⟨⟨h1, h2⟩, h3⟩ | ⟨⟨h1, h2⟩, h3⟩) | ⟨⟨h1, h2⟩, h3⟩) | ⟨⟨h1, h2⟩, h3⟩)
      · rw [w1 (by omega)] at h3; exact Or.inl (Or.inl (Or.inl ⟨⟨h1, h2⟩, h3⟩))
      · rw [w2 (by omega)] at h3; exact Or.inl (Or.inl (Or.inr ⟨⟨h1, h2⟩, h3⟩))
      · rw [w3 (by omega)] at h3; exact Or.inl (Or.inr ⟨⟨h1, h2⟩, h3⟩)
      · rw [w4 (by omega)] at h3; exact Or.inr ⟨⟨h1, h2⟩, h3⟩
    · rintro (((⟨⟨h1, h2⟩, h3⟩ | ⟨⟨h1, h2⟩, h3⟩) | ⟨⟨h1, h2⟩, h3⟩) | ⟨⟨h1, h2⟩, h3⟩)
      · rw [← w1 (by omega)] at h3; exact Or.inl (Or.inl (Or.inl ⟨⟨h1, h2⟩, h3⟩))
      · rw [← w2 (by omega)] at h3; exact Or.inl (Or.inl (Or.inr ⟨⟨h1, h2⟩, h3⟩))
      · rw [← w3 (by omega)] at h3; exact Or.inl (Or.inr ⟨⟨h1, h2⟩, h3⟩)
      · rw [← w4 (by omega)] at h3; exact Or.inr ⟨⟨h1, h2⟩, h3⟩
  · intro hng
    have hin : inI 64 (a * b) := by
      have e : (inI 64 (a * b)) ↔ (-(9223372036854775808:Int) ≤ a * b ∧ a * b < 9223372036854775808) := by unfold inI; simp
      rw [e]
      by_contra hc
      apply hng
      rcases hg.mpr hc with (((⟨⟨h1, h2⟩, h3⟩ | ⟨⟨h1, h2⟩, h3⟩) | ⟨⟨h1, h2⟩, h3⟩) | ⟨⟨h1, h2⟩, h3⟩)
      · rw [← w1 (by omega)] at h3; exact Or.inl (Or.inl (Or.inl ⟨⟨h1, h2⟩, h3⟩))
      · rw [← w2 (by omega)] at h3; exact Or.inl (Or.inl (Or.inr ⟨⟨h1, h2⟩, h3⟩))
      · rw [← w3 (by omega)] at h3; exact Or.inl (Or.inr ⟨⟨h1, h2⟩, h3⟩)
      · rw [← w4 (by omega)] at h3; exact Or.inr ⟨⟨h1, h2⟩, h3⟩
    exact wrapI_id 64 _ (by decide) hin

theorem divInt64_exact (a b : Int) (ha : inI 64 a) (hb : inI 64 b) :
    Exact (inI 64) (exDiv a b) (DivInt64 a b) := by
  have ha' : -(9223372036854775808:Int) ≤ a ∧ a < 9223372036854775808 := by unfold inI at ha; simpa using ha
  have w : wrapI 64 (-1) = -1 := by decide
  unfold exDiv
  by_cases hb0 : b = 0
  · rw [if_pos hb0]; unfold Exact DivInt64; simp [hb0]
  · rw [if_neg hb0]
    apply exact_of ((b = 0) ∨ ((a = (-9223372036854775808)) ∧ (b = (wrapI 64 (-1))))) (wrapI 64 (goDiv a b))
    · rfl
    · rw [w]
      constructor
      · rintro (h | ⟨h1, h2⟩)
        · exact absurd h hb0
        · subst h1; subst h2; decide
      · intro h
        by_contra hc
        apply h
        have := tdiv_bounds a b 9223372036854775808 (by decide) ha' hb0 (by omega)
        unfold inI; simpa using this
    · intro hng
      rw [w] at hng
      have := tdiv_bounds a b 9223372036854775808 (by decide) ha' hb0 (by omega)
      exact wrapI_id 64 _ (by decide) (by unfold inI; simpa using this)

/-- The property at full strength for `ModInt64`. -/
def modInt64_full : Prop :=
  ∀ a b : Int, inI 64 a → inI 64 b → Exact (inI 64) (exMod a b) (ModInt64 a b)

/-- Proved part: every operand pair except `(MinInt64, -1)`. -/
theorem modInt64_exact_partial (a b : Int) (_ha : inI 64 a) (hb : inI 64 b)
    (hx : ¬ (a = -9223372036854775808 ∧ b = -1)) :
    Exact (inI 64) (exMod a b) (ModInt64 a b) := by
  have hb' : -(9223372036854775808:Int) ≤ b ∧ b < 9223372036854775808 := by unfold inI at hb; simpa using hb
  have w : wrapI 64 (-1) = -1 := by decide
  unfold exMod
  by_cases hb0 : b = 0
  · rw [if_pos hb0]; unfold Exact ModInt64; simp [hb0]
  · rw [if_neg hb0]
    have hin : inI 64 (Int.tmod a b) := by
      have := tmod_bounds a b 9223372036854775808 hb' hb0
      unfold inI; simpa using this
    apply exact_of ((b = 0) ∨ ((a = (-9223372036854775808)) ∧ (b = (wrapI 64 (-1))))) (wrapI 64 (goMod a b))
    · rfl
    · rw [w]
      constructor
      · rintro (h | h)
        · exact absurd h hb0
        · exact absurd h hx
      · intro h; exact absurd hin h
    · intro _
      exact wrapI_id 64 _ (by decide) hin

/-- The code reports failure for `(MinInt64, -1)` although the exact remainder `0` fits:
    the full-strength statement is FALSE of the code as it is (known finding F17). The
    witness is the one `known_findings.json` lists. If the guard is ever repaired this
    theorem stops checking and `modInt64_full` must be proved instead. -/
theorem modInt64_full_refuted : ¬ modInt64_full := by
  intro h
  have h1 := h (-9223372036854775808) (-1) (by decide) (by decide)
  have e : exMod (-9223372036854775808) (-1) = some 0 := by decide
  rw [e] at h1
  have h2 := h1.1 (by decide)
  exact absurd h2 (by decide)

theorem negateInt64_exact (a : Int) (ha : inI 64 a) :
    Exact (inI 64) (some (-a)) (NegateInt64 a) := by
  unfold inI at ha
  unfold Exact NegateInt64 inI wrapI
  simp only [Nat.reduceSub, Int.reducePow] at *
  refine ⟨fun h => ?_, fun h => ?_⟩ <;> split <;> first | rfl | (exfalso; omega) | (congr 1; omega)

theorem lshiftInt64_exact (a b : Int) (ha : inI 64 a) (hb : inI 64 b) :
    Exact (inI 64) (exShl 64 a b) (LshiftInt64 a b) := by
  unfold inI at ha hb
  unfold exShl
  by_cases hr : 0 ≤ b ∧ b < 64
  · rw [if_pos hr]
    obtain ⟨h0, h1⟩ := hr
    apply exact_of (((a ≥ 0) ∧ (a > (goShr 9223372036854775807 (wrapU 64 (b))))) ∨ ((a < 0) ∧ (a < (goShr (-9223372036854775808) (wrapU 64 (b)))))) (wrapI 64 (goShl a (wrapU 64 b)))
    · unfold LshiftInt64
      rw [if_neg (by omega)]
    · unfold inI wrapU goShr
      interval_cases b <;> simp only [Int.reducePow, Nat.reduceSub, Int.reduceMod, Int.reduceToNat, Int.reduceDiv, Int.reduceNeg] <;> omega
    · unfold wrapU goShr goShl wrapI
      interval_cases b <;> simp only [Int.reducePow, Nat.reduceSub, Int.reduceMod, Int.reduceToNat, Int.reduceDiv, Int.reduceNeg] <;> omega
  · rw [if_neg hr]
    unfold Exact LshiftInt64
    simp only [ite_eq_left_iff]
    intro h; exfalso; omega

/-! ### int32 -/

theorem addInt32_exact (a b : Int) (ha : inI 32 a) (hb : inI 32 b) :
    Exact (inI 32) (some (a + b)) (AddInt32 a b) := by
  unfold inI at ha hb
  unfold Exact AddInt32 inI wrapI
  simp only [Nat.reduceSub, Int.reducePow] at *
  refine ⟨fun h => ?_, fun h => ?_⟩ <;> split <;> first | rfl | (exfalso; omega) | (congr 1; omega)

theorem subInt32_exact (a b : Int) (ha : inI 32 a) (hb : inI 32 b) :
    Exact (inI 32) (some (a - b)) (SubInt32 a b) := by
  unfold inI at ha hb
  unfold Exact SubInt32 inI wrapI
  simp only [Nat.reduceSub, Int.reducePow] at *
  refine ⟨fun h => ?_, fun h => ?_⟩ <;> split <;> first | rfl | (exfalso; omega) | (congr 1; omega)

theorem mulInt32_exact (a b : Int) (ha : inI 32 a) (hb : inI 32 b) :
    Exact (inI 32) (some (a * b)) (MulInt32 a b) := by
  have ha' : -(2147483648:Int) ≤ a ∧ a < 2147483648 := by unfold inI at ha; simpa using ha
  have hb' : -(2147483648:Int) ≤ b ∧ b < 2147483648 := by unfold inI at hb; simpa using hb
  have hg := mul_guard 2147483648 a b (by decide) ha' hb'
  -- the wraps around the quotients inside the guard are identities
  have w1 : b ≠ 0 → wrapI 32 (goDiv 2147483647 b) = Int.tdiv (2147483648 - 1) b := by
    intro h0
    have := tdiv_bounds 2147483647 b 2147483648 (by decide) (by decide) h0 (by omega)
    rw [wrapI_id 32 _ (by decide) (by unfold inI; simpa using this)]; rfl
  have w2 : 0 < a → wrapI 32 (goDiv (-2147483648) a) = Int.tdiv (-2147483648) a := by
    intro h0
    have := tdiv_bounds (-2147483648) a 2147483648 (by decide) (by decide) (by omega) (by omega)
    rw [wrapI_id 32 _ (by decide) (by unfold inI; simpa using this)]
  have w3 : 0 < b → wrapI 32 (goDiv (-2147483648) b) = Int.tdiv (-2147483648) b := by
    intro h0
    have := tdiv_bounds (-2147483648) b 2147483648 (by decide) (by decide) (by omega) (by omega)
    rw [wrapI_id 32 _ (by decide) (by unfold inI; simpa using this)]
  have w4 : a ≠ 0 → wrapI 32 (goDiv 2147483647 a) = Int.tdiv (2147483648 - 1) a := by
    intro h0
    have := tdiv_bounds 2147483647 a 2147483648 (by decide) (by decide) h0 (by omega)
    rw [wrapI_id 32 _ (by decide) (by unfold inI; simpa using this)]; rfl
  apply exact_of ((((((a > 0) ∧ (b > 0)) ∧ (a > (wrapI 32 (goDiv 2147483647 b)))) ∨ (((a > 0) ∧ (b ≤ 0)) ∧ (b < (wrapI 32 (goDiv (-2147483648) a))))) ∨ (((a ≤ 0) ∧ (b > 0)) ∧ (a < (wrapI 32 (goDiv (-2147483648) b))))) ∨ (((a < 0) ∧ (b ≤ 0)) ∧ (b < (wrapI 32 (goDiv 2147483647 a))))) (wrapI 32 (a * b))
  · rfl
  · have e : (inI 32 (a * b)) ↔ (-(2147483648:Int) ≤ a * b ∧ a * b < 2147483648) := by unfold inI; simp
    rw [e, ← hg]
    constructor
    · rintro (((⟨⟨h1, h2⟩, h3⟩ | ⟨⟨h1, h2⟩, h3⟩) | ⟨⟨h1, h2⟩, h3⟩) | ⟨⟨h1, h2⟩, h3⟩)
      · rw [w1 (by omega)] at h3; exact Or.inl (Or.inl (Or.inl ⟨⟨h1, h2⟩, h3⟩))
      · rw [w2 (by omega)] at h3; exact Or.inl (Or.inl (Or.inr ⟨⟨h1, h2⟩, h3⟩))
      · rw [w3 (by omega)] at h3; exact Or.inl (Or.inr ⟨⟨h1, h2⟩, h3⟩)
      · rw [w4 (by omega)] at h3; exact Or.inr ⟨⟨h1, h2⟩, h3⟩
    · rintro (((⟨⟨h1, h2⟩, h3⟩ | ⟨⟨h1, h2⟩, h3⟩) | ⟨⟨h1, h2⟩, h3⟩) | ⟨⟨h1, h2⟩, h3⟩)
      · rw [← w1 (by omega)] at h3; exact Or.inl (Or.inl (Or.inl ⟨⟨h1, h2⟩, h3⟩))
      · rw [← w2 (by omega)] at h3; exact Or.inl (Or.inl (Or.inr ⟨⟨h1, h2⟩, h3⟩))
      · rw [← w3 (by omega)] at h3; exact Or.inl (Or.inr ⟨⟨h1, h2⟩, h3⟩)
      · rw [← w4 (by omega)] at h3; exact Or.inr ⟨⟨h1, h2⟩, h3⟩
  · intro hng
    have hin : inI 32 (a * b) := by
      have e : (inI 32 (a * b)) ↔ (-(2147483648:Int) ≤ a * b ∧ a * b < 2147483648) := by unfold inI; simp
      rw [e]
      by_contra hc
      apply hng
      rcases hg.mpr hc with (((⟨⟨h1, h2⟩, h3⟩ | ⟨⟨h1, h2⟩, h3⟩) | ⟨⟨h1, h2⟩, h3⟩) | ⟨⟨h1, h2⟩, h3⟩)
      · rw [← w1 (by omega)] at h3; exact Or.inl (Or.inl (Or.inl ⟨⟨h1, h2⟩, h3⟩))
      · rw [← w2 (by omega)] at h3; exact Or.inl (Or.inl (Or.inr ⟨⟨h1, h2⟩, h3⟩))
      · rw [← w3 (by omega)] at h3; exact Or.inl (Or.inr ⟨⟨h1, h2⟩, h3⟩)
      · rw [← w4 (by omega)] at h3; exact Or.inr ⟨⟨h1, h2⟩, h3⟩
    exact wrapI_id 32 _ (by decide) hin

theorem divInt32_exact (a b : Int) (ha : inI 32 a) (hb : inI 32 b) :
    Exact (inI 32) (exDiv a b) (DivInt32 a b) := by
  have ha' : -(2147483648:Int) ≤ a ∧ a < 2147483648 := by unfold inI at ha; simpa using ha
  have w : wrapI 32 (-1) = -1 := by decide
  unfold exDiv
  by_cases hb0 : b = 0
  · rw [if_pos hb0]; unfold Exact DivInt32; simp [hb0]
  · rw [if_neg hb0]
    apply exact_of ((b = 0) ∨ ((a = (-2147483648)) ∧ (b = (wrapI 32 (-1))))) (wrapI 32 (goDiv a b))
    · rfl
    · rw [w]
      constructor
      · rintro (h | ⟨h1, h2⟩)
        · exact absurd h hb0
        · subst h1; subst h2; decide
      · intro h
        by_contra hc
        apply h
        have := tdiv_bounds a b 2147483648 (by decide) ha' hb0 (by omega)
        unfold inI; simpa using this
    · intro hng
      rw [w] at hng
      have := tdiv_bounds a b 2147483648 (by decide) ha' hb0 (by omega)
      exact wrapI_id 32 _ (by decide) (by unfold inI; simpa using this)

/-- The property at full strength for `ModInt32`. -/
def modInt32_full : Prop :=
  ∀ a b : Int, inI 32 a → inI 32 b → Exact (inI 32) (exMod a b) (ModInt32 a b)

/-- Proved part: every operand pair except `(MinInt32, -1)`. -/
theorem modInt32_exact_partial (a b : Int) (_ha : inI 32 a) (hb : inI 32 b)
    (hx : ¬ (a = -2147483648 ∧ b = -1)) :
    Exact (inI 32) (exMod a b) (ModInt32 a b) := by
  have hb' : -(2147483648:Int) ≤ b ∧ b < 2147483648 := by unfold inI at hb; simpa using hb
  have w : wrapI 32 (-1) = -1 := by decide
  unfold exMod
  by_cases hb0 : b = 0
  · rw [if_pos hb0]; unfold Exact ModInt32; simp [hb0]
  · rw [if_neg hb0]
    have hin : inI 32 (Int.tmod a b) := by
      have := tmod_bounds a b 2147483648 hb' hb0
      unfold inI; simpa using this
    apply exact_of ((b = 0) ∨ ((a = (-2147483648)) ∧ (b = (wrapI 32 (-1))))) (wrapI 32 (goMod a b))
    · rfl
    · rw [w]
      constructor
      · rintro (h | h)
        · exact absurd h hb0
        · exact absurd h hx
      · intro h; exact absurd hin h
    · intro _
      exact wrapI_id 32 _ (by decide) hin

/-- The code reports failure for `(MinInt32, -1)` although the exact remainder `0` fits:
    the full-strength statement is FALSE of the code as it is (known finding F17). The
    witness is the one `known_findings.json` lists. If the guard is ever repaired this
    theorem stops checking and `modInt32_full` must be proved instead. -/
theorem modInt32_full_refuted : ¬ modInt32_full := by
  intro h
  have h1 := h (-2147483648) (-1) (by decide) (by decide)
  have e : exMod (-2147483648) (-1) = some 0 := by decide
  rw [e] at h1
  have h2 := h1.1 (by decide)
  exact absurd h2 (by decide)

theorem negateInt32_exact (a : Int) (ha : inI 32 a) :
    Exact (inI 32) (some (-a)) (NegateInt32 a) := by
  unfold inI at ha
  unfold Exact NegateInt32 inI wrapI
  simp only [Nat.reduceSub, Int.reducePow] at *
  refine ⟨fun h => ?_, fun h => ?_⟩ <;> split <;> first | rfl | (exfalso; omega) | (congr 1; omega)

theorem lshiftInt32_exact (a b : Int) (ha : inI 32 a) (hb : inI 32 b) :
    Exact (inI 32) (exShl 32 a b) (LshiftInt32 a b) := by
  unfold inI at ha hb
  unfold exShl
  by_cases hr : 0 ≤ b ∧ b < 32
  · rw [if_pos hr]
    obtain ⟨h0, h1⟩ := hr
    apply exact_of (((a ≥ 0) ∧ (a > (goShr 2147483647 (wrapU 64 (b))))) ∨ ((a < 0) ∧ (a < (goShr (-2147483648) (wrapU 64 (b)))))) (wrapI 32 (goShl a (wrapU 64 b)))
    · unfold LshiftInt32
      rw [if_neg (by omega)]
    · unfold inI wrapU goShr
      interval_cases b <;> simp only [Int.reducePow, Nat.reduceSub, Int.reduceMod, Int.reduceToNat, Int.reduceDiv, Int.reduceNeg] <;> omega
    · unfold wrapU goShr goShl wrapI
      interval_cases b <;> simp only [Int.reducePow, Nat.reduceSub, Int.reduceMod, Int.reduceToNat, Int.reduceDiv, Int.reduceNeg] <;> omega
  · rw [if_neg hr]
    unfold Exact LshiftInt32
    simp only [ite_eq_left_iff]
    intro h; exfalso; omega

/-! ### uint64 -/

theorem addUint64_exact (a b : Int) (ha : inU 64 a) (hb : inU 64 b) :
    Exact (inU 64) (some (a + b)) (AddUint64 a b) := by
  unfold inU at ha hb
  unfold Exact AddUint64 inU wrapU
  simp only [Int.reducePow] at *
  refine ⟨fun h => ?_, fun h => ?_⟩ <;> split <;> first | rfl | (exfalso; omega) | (congr 1; omega)

theorem subUint64_exact (a b : Int) (ha : inU 64 a) (hb : inU 64 b) :
    Exact (inU 64) (some (a - b)) (SubUint64 a b) := by
  unfold inU at ha hb
  unfold Exact SubUint64 inU wrapU
  simp only [Int.reducePow] at *
  refine ⟨fun h => ?_, fun h => ?_⟩ <;> split <;> first | rfl | (exfalso; omega) | (congr 1; omega)

theorem mulUint64_exact (a b : Int) (ha : inU 64 a) (hb : inU 64 b) :
    Exact (inU 64) (some (a * b)) (MulUint64 a b) := by
  have ha' : 0 ≤ a ∧ a < 18446744073709551616 := by unfold inU at ha; simpa using ha
  have hb' : 0 ≤ b ∧ b < 18446744073709551616 := by unfold inU at hb; simpa using hb
  have hnn : 0 ≤ a * b := Int.mul_nonneg ha'.1 hb'.1
  have w : 0 < b → wrapU 64 (goDiv 18446744073709551615 b) = 18446744073709551615 / b := by
    intro h0
    have e : goDiv 18446744073709551615 b = 18446744073709551615 / b := Int.tdiv_eq_ediv_of_nonneg (by decide)
    rw [e]
    have h1 : 0 ≤ (18446744073709551615:Int) / b := Int.ediv_nonneg (by decide) (by omega)
    have h2 : (18446744073709551615:Int) / b ≤ 18446744073709551615 := Int.ediv_le_self _ (by decide)
    exact wrapU_id 64 _ (by unfold inU; simp only [Int.reducePow]; omega)
  apply exact_of ((b > 0) ∧ (a > (wrapU 64 (goDiv 18446744073709551615 b)))) (wrapU 64 (a * b))
  · rfl
  · have e : (inU 64 (a * b)) ↔ (0 ≤ a * b ∧ a * b < 18446744073709551616) := by unfold inU; simp
    rw [e]
    constructor
    · rintro ⟨h1, h2⟩
      rw [w h1] at h2
      have := (Int.ediv_lt_iff_lt_mul h1).mp h2
      omega
    · intro h
      have hb0 : 0 < b := by
        by_contra hc
        have : b = 0 := by omega
        subst this; simp at h
      refine ⟨hb0, ?_⟩
      rw [w hb0]
      apply (Int.ediv_lt_iff_lt_mul hb0).mpr
      omega
  · intro hng
    apply wrapU_id
    unfold inU; simp only [Int.reducePow]
    refine ⟨hnn, ?_⟩
    by_contra hc
    apply hng
    have hb0 : 0 < b := by
      by_contra hc2
      have : b = 0 := by omega
      subst this; simp at hc
    refine ⟨hb0, ?_⟩
    rw [w hb0]
    apply (Int.ediv_lt_iff_lt_mul hb0).mpr
    omega

theorem divUint64_exact (a b : Int) (ha : inU 64 a) (hb : inU 64 b) :
    Exact (inU 64) (exDiv a b) (DivUint64 a b) := by
  have ha' : 0 ≤ a ∧ a < 18446744073709551616 := by unfold inU at ha; simpa using ha
  have hb' : 0 ≤ b ∧ b < 18446744073709551616 := by unfold inU at hb; simpa using hb
  unfold exDiv
  by_cases hb0 : b = 0
  · rw [if_pos hb0]; unfold Exact DivUint64; simp [hb0]
  · rw [if_neg hb0]
    have e : Int.tdiv a b = a / b := Int.tdiv_eq_ediv_of_nonneg ha'.1
    have h1 : 0 ≤ a / b := Int.ediv_nonneg ha'.1 hb'.1
    have h2 : a / b ≤ a := Int.ediv_le_self _ ha'.1
    have hin : inU 64 (Int.tdiv a b) := by rw [e]; unfold inU; simp only [Int.reducePow]; omega
    apply exact_of (b = 0) (wrapU 64 (goDiv a b))
    · rfl
    · exact ⟨fun h => absurd h hb0, fun h => absurd hin h⟩
    · intro _; exact wrapU_id 64 _ hin

theorem modUint64_exact (a b : Int) (ha : inU 64 a) (hb : inU 64 b) :
    Exact (inU 64) (exMod a b) (ModUint64 a b) := by
  have ha' : 0 ≤ a ∧ a < 18446744073709551616 := by unfold inU at ha; simpa using ha
  have hb' : 0 ≤ b ∧ b < 18446744073709551616 := by unfold inU at hb; simpa using hb
  unfold exMod
  by_cases hb0 : b = 0
  · rw [if_pos hb0]; unfold Exact ModUint64; simp [hb0]
  · rw [if_neg hb0]
    have e : Int.tmod a b = a % b := Int.tmod_eq_emod_of_nonneg ha'.1
    have h1 : 0 ≤ a % b := Int.emod_nonneg _ hb0
    have h2 : a % b < b := Int.emod_lt_of_pos _ (by omega)
    have hin : inU 64 (Int.tmod a b) := by rw [e]; unfold inU; simp only [Int.reducePow]; omega
    apply exact_of (b = 0) (wrapU 64 (goMod a b))
    · rfl
    · exact ⟨fun h => absurd h hb0, fun h => absurd hin h⟩
    · intro _; exact wrapU_id 64 _ hin

theorem lshiftUint64_exact (a b : Int) (ha : inU 64 a) (hb : inU 64 b) :
    Exact (inU 64) (exShl 64 a b) (LshiftUint64 a b) := by
  unfold inU at ha hb
  unfold exShl
  by_cases hr : 0 ≤ b ∧ b < 64
  · rw [if_pos hr]
    obtain ⟨h0, h1⟩ := hr
    apply exact_of (a > (goShr 18446744073709551615 (wrapU 64 (b)))) (wrapU 64 (goShl a (wrapU 64 b)))
    · unfold LshiftUint64
      rw [if_neg (by omega)]
    · unfold inU wrapU goShr
      interval_cases b <;> simp only [Int.reducePow, Int.reduceMod, Int.reduceToNat, Int.reduceDiv] <;> omega
    · unfold wrapU goShr goShl
      interval_cases b <;> simp only [Int.reducePow, Int.reduceMod, Int.reduceToNat, Int.reduceDiv] <;> omega
  · rw [if_neg hr]
    unfold Exact LshiftUint64
    simp only [ite_eq_left_iff]
    intro h; exfalso; omega

/-! ### uint32 -/

theorem addUint32_exact (a b : Int) (ha : inU 32 a) (hb : inU 32 b) :
    Exact (inU 32) (some (a + b)) (AddUint32 a b) := by
  unfold inU at ha hb
  unfold Exact AddUint32 inU wrapU
  simp only [Int.reducePow] at *
  refine ⟨fun h => ?_, fun h => ?_⟩ <;> split <;> first | rfl | (exfalso; omega) | (congr 1; omega)

theorem subUint32_exact (a b : Int) (ha : inU 32 a) (hb : inU 32 b) :
    Exact (inU 32) (some (a - b)) (SubUint32 a b) := by
  unfold inU at ha hb
  unfold Exact SubUint32 inU wrapU
  simp only [Int.reducePow] at *
  refine ⟨fun h => ?_, fun h => ?_⟩ <;> split <;> first | rfl | (exfalso; omega) | (congr 1; omega)

theorem mulUint32_exact (a b : Int) (ha : inU 32 a) (hb : inU 32 b) :
    Exact (inU 32) (some (a * b)) (MulUint32 a b) := by
  have ha' : 0 ≤ a ∧ a < 4294967296 := by unfold inU at ha; simpa using ha
  have hb' : 0 ≤ b ∧ b < 4294967296 := by unfold inU at hb; simpa using hb
  have hnn : 0 ≤ a * b := Int.mul_nonneg ha'.1 hb'.1
  have w : 0 < b → wrapU 32 (goDiv 4294967295 b) = 4294967295 / b := by
    intro h0
    have e : goDiv 4294967295 b = 4294967295 / b := Int.tdiv_eq_ediv_of_nonneg (by decide)
    rw [e]
    have h1 : 0 ≤ (4294967295:Int) / b := Int.ediv_nonneg (by decide) (by omega)
    have h2 : (4294967295:Int) / b ≤ 4294967295 := Int.ediv_le_self _ (by decide)
    exact wrapU_id 32 _ (by unfold inU; simp only [Int.reducePow]; omega)
  apply exact_of ((b > 0) ∧ (a > (wrapU 32 (goDiv 4294967295 b)))) (wrapU 32 (a * b))
  · rfl
  · have e : (inU 32 (a * b)) ↔ (0 ≤ a * b ∧ a * b < 4294967296) := by unfold inU; simp
    rw [e]
    constructor
    · rintro ⟨h1, h2⟩
      rw [w h1] at h2
      have := (Int.ediv_lt_iff_lt_mul h1).mp h2
      omega
    · intro h
      have hb0 : 0 < b := by
        by_contra hc
        have : b = 0 := by omega
        subst this; simp at h
      refine ⟨hb0, ?_⟩
      rw [w hb0]
      apply (Int.ediv_lt_iff_lt_mul hb0).mpr
      omega
  · intro hng
    apply wrapU_id
    unfold inU; simp only [Int.reducePow]
    refine ⟨hnn, ?_⟩
    by_contra hc
    apply hng
    have hb0 : 0 < b := by
      by_contra hc2
      have : b = 0 := by omega
      subst this; simp at hc
    refine ⟨hb0, ?_⟩
    rw [w hb0]
    apply (Int.ediv_lt_iff_lt_mul hb0).mpr
    omega

theorem divUint32_exact (a b : Int) (ha : inU 32 a) (hb : inU 32 b) :
    Exact (inU 32) (exDiv a b) (DivUint32 a b) := by
  have ha' : 0 ≤ a ∧ a < 4294967296 := by unfold inU at ha; simpa using ha
  have hb' : 0 ≤ b ∧ b < 4294967296 := by unfold inU at hb; simpa using hb
  unfold exDiv
  by_cases hb0 : b = 0
  · rw [if_pos hb0]; unfold Exact DivUint32; simp [hb0]
  · rw [if_neg hb0]
    have e : Int.tdiv a b = a / b := Int.tdiv_eq_ediv_of_nonneg ha'.1
    have h1 : 0 ≤ a / b := Int.ediv_nonneg ha'.1 hb'.1
    have h2 : a / b ≤ a := Int.ediv_le_self _ ha'.1
    have hin : inU 32 (Int.tdiv a b) := by rw [e]; unfold inU; simp only [Int.reducePow]; omega
    apply exact_of (b = 0) (wrapU 32 (goDiv a b))
    · rfl
    · exact ⟨fun h => absurd h hb0, fun h => absurd hin h⟩
    · intro _; exact wrapU_id 32 _ hin

theorem modUint32_exact (a b : Int) (ha : inU 32 a) (hb : inU 32 b) :
    Exact (inU 32) (exMod a b) (ModUint32 a b) := by
  have ha' : 0 ≤ a ∧ a < 4294967296 := by unfold inU at ha; simpa using ha
  have hb' : 0 ≤ b ∧ b < 4294967296 := by unfold inU at hb; simpa using hb
  unfold exMod
  by_cases hb0 : b = 0
  · rw [if_pos hb0]; unfold Exact ModUint32; simp [hb0]
  · rw [if_neg hb0]
    have e : Int.tmod a b = a % b := Int.tmod_eq_emod_of_nonneg ha'.1
    have h1 : 0 ≤ a % b := Int.emod_nonneg _ hb0
    have h2 : a % b < b := Int.emod_lt_of_pos _ (by omega)
    have hin : inU 32 (Int.tmod a b) := by rw [e]; unfold inU; simp only [Int.reducePow]; omega
    apply exact_of (b = 0) (wrapU 32 (goMod a b))
    · rfl
    · exact ⟨fun h => absurd h hb0, fun h => absurd hin h⟩
    · intro _; exact wrapU_id 32 _ hin

theorem lshiftUint32_exact (a b : Int) (ha : inU 32 a) (hb : inU 32 b) :
    Exact (inU 32) (exShl 32 a b) (LshiftUint32 a b) := by
  unfold inU at ha hb
  unfold exShl
  by_cases hr : 0 ≤ b ∧ b < 32
  · rw [if_pos hr]
    obtain ⟨h0, h1⟩ := hr
    apply exact_of (a > (goShr 4294967295 (wrapU 64 (b)))) (wrapU 32 (goShl a (wrapU 64 b)))
    · unfold LshiftUint32
      rw [if_neg (by omega)]
    · unfold inU wrapU goShr
      interval_cases b <;> simp only [Int.reducePow, Int.reduceMod, Int.reduceToNat, Int.reduceDiv] <;> omega
    · unfold wrapU goShr goShl
      interval_cases b <;> simp only [Int.reducePow, Int.reduceMod, Int.reduceToNat, Int.reduceDiv] <;> omega
  · rw [if_neg hr]
    unfold Exact LshiftUint32
    simp only [ite_eq_left_iff]
    intro h; exfalso; omega

/-! ### Non-vacuity: the hypotheses are met by concrete, non-trivial operands, and the
conclusions have content on them (these are tests of the statements, not the claim). -/

example : inI 64 9223372036854775807 ∧ inI 64 1 ∧ AddInt64 9223372036854775807 1 = (0, false) := by decide
example : inI 64 (-9223372036854775808) ∧ MulInt64 (-9223372036854775808) (-1) = (0, false) ∧
    MulInt64 (-4611686018427387904) 2 = (-9223372036854775808, true) := by decide
example : inU 64 18446744073709551615 ∧ MulUint64 4294967296 4294967296 = (0, false) ∧
    MulUint64 4294967295 4294967297 = (18446744073709551615, true) := by decide
example : LshiftInt64 (-1) 63 = (-9223372036854775808, true) ∧ LshiftInt64 1 63 = (0, false) := by decide

end BytomModel.Props.C31
