/-
C04 — Encoding round-trips every well-formed ledger value.

Statements are about `BytomModel.Codec` (Model/Codec.lean), the executable model of the Go
`readFrom`/`writeTo` pairs that the differential run compares with the real code on every
check. `H` is the hash used for issuance asset ids (SHA3-256 in the code); the theorems
hold for every `H` with 32-byte output.

History: until /repo commit 16cb6449 a non-empty spend/veto commitment suffix was written twice
and the full statement was refuted here (finding C04-SC-SUFFIX); the code now writes it once,
`tx_roundtrip_full` is proved for every well-formed transaction and the former witness is an
`example` that satisfies it. An input whose asset version is not 1 is rejected by the decoder
since c7687229, so well-formed inputs are the typed ones (asset version 1).
-/
import BytomModel.Lemmas.CodecRT

namespace BytomModel.Props.C04
open BytomModel.Codec BytomModel.Lemmas.Codec

/-! ### primitives -/

/-- every `uint64 ≤ MaxInt64` survives `WriteVarint63` / `ReadVarint63`, whatever follows -/
theorem varint63_roundtrip (n : Nat) (h : n ≤ max63) (r : Bytes) :
    (readVarint63 (putUvarint n ++ r)).out = .ok n r := readVarint63_put n h r

theorem varint31_roundtrip (n : Nat) (h : n ≤ max31) (r : Bytes) :
    (readVarint31 (putUvarint n ++ r)).out = .ok n r := readVarint31_put n h r

theorem varstr31_roundtrip (s : Bytes) (h : s.length ≤ max31) (r : Bytes) :
    (readVarstr31 (encVarstr s ++ r)).out = .ok s r := readVarstr31_enc s h r

theorem varstrList_roundtrip (l : List Bytes) (h : WFList l) (r : Bytes) :
    (readVarstrList (encStrList l ++ r)).out = .ok l r := readVarstrList_enc l h r

/-- `ReadExtensibleString ∘ WriteExtensibleString`: the inner value and the suffix come back -/
theorem extensibleString_roundtrip {α} (f : Dec α) (body suffix : Bytes) (a : α) (r : Bytes)
    (hf : (f (body ++ suffix)).out = .ok a suffix) (hl : (body ++ suffix).length ≤ max31) :
    (readExt f (encExt body suffix ++ r)).out = .ok (a, suffix) r := readExt_enc f body suffix a r hf hl

/-- the hex text layer (`MarshalText`/`UnmarshalText`) -/
theorem hex_roundtrip (bs : Bytes) : hexDecode (hexEncode bs) = some bs := hexDecode_encode bs

/-! ### inputs and outputs -/

/-- decoding the encoding of a well-formed input returns it exactly — spend / veto commitment
    suffix, commitment suffix and witness suffix included -/
theorem input_roundtrip (H : Bytes → Bytes) (hH : Hash32 H) (i : TxInput) (h : WFInput H i) (r : Bytes) :
    (decInput H (encInput H i ++ r)).out = .ok i r := decInput_enc H hH i h r

/-- the spend commitment with an arbitrary suffix -/
theorem spendCommitment_roundtrip (sc : SpendCommitment) (suf : Bytes) (h : WFSC sc)
    (hl : (encSCFields sc ++ suf).length ≤ max31) (r : Bytes) :
    (decSC (encSC sc suf ++ r)).out = .ok (sc, suf) r := decSC_enc sc suf h hl r

theorem output_roundtrip (o : TxOutput) (h : WFOutput o) (r : Bytes) :
    (decOutput (encOutput o ++ r)).out = .ok o r := decOutput_enc o h r

/-! ### transactions -/

/-- **C04 for transactions, at full strength**: for every hash function with 32-byte digests,
    every well-formed transaction and any trailing bytes, the encoding decodes to the same
    value with the recorded size equal to the encoded length, leaving the trailing bytes unread -/
theorem tx_roundtrip_full (H : Bytes → Bytes) (hH : Hash32 H) (tx : TxData) (h : WFTx H tx) (r : Bytes) :
    (decTx H (encTx H tx ++ r)).out = .ok { tx with serializedSize := (encTx H tx).length } r :=
  decTx_enc H hH tx h r

/-- the recorded serialized size of a decoded transaction is the length of its encoding -/
theorem tx_serialized_size (H : Bytes → Bytes) (hH : Hash32 H) (tx : TxData) (h : WFTx H tx) (r : Bytes) :
    ∃ tx', (decTx H (encTx H tx ++ r)).out = .ok tx' r ∧ tx'.serializedSize = (encTx H tx).length :=
  ⟨canonTx H tx, decTx_enc H hH tx h r, rfl⟩

/-- exact equality when the value already records its size (any decoded value does) -/
theorem tx_roundtrip_exact (H : Bytes → Bytes) (hH : Hash32 H) (tx : TxData) (h : WFTx H tx)
    (hsize : tx.serializedSize = (encTx H tx).length) :
    (decTx H (encTx H tx)).out = .ok tx [] := by
  have := tx_roundtrip_full H hH tx h []
  rw [List.append_nil] at this
  rw [this, ← hsize]

/-- text form: `TxData.UnmarshalText (TxData.MarshalText tx)` -/
theorem tx_text_roundtrip (H : Bytes → Bytes) (hH : Hash32 H) (tx : TxData) (h : WFTx H tx) :
    (txDataFromText H (txToText H tx)).out = .ok { tx with serializedSize := (encTx H tx).length } [] := by
  unfold txDataFromText txToText
  rw [fromText_hex]
  have := tx_roundtrip_full H hH tx h []
  rw [List.append_nil] at this
  rw [bind_ok this]
  rfl

/-- text form through `Tx.UnmarshalText`, which also runs `MapTx` (no panic: every
    well-formed input is typed) -/
theorem tx_text_roundtrip_mapped (H : Bytes → Bytes) (hH : Hash32 H) (tx : TxData) (h : WFTx H tx) :
    (txFromText H (txToText H tx)).out = .ok { tx with serializedSize := (encTx H tx).length } [] := by
  unfold txFromText txToText
  rw [fromText_hex]
  have h1 := decTx_enc H hH tx h []
  rw [List.append_nil] at h1
  rw [bind_ok h1]
  have h2 : (noTrailing (canonTx H tx) []).out = .ok (canonTx H tx) [] := rfl
  rw [bind_ok h2]
  have h3 : (mapTxD (canonTx H tx) []).out = .ok () [] := by
    unfold mapTxD
    rw [mapTxPanics_canon H tx h.allTyped]
    rfl
  rw [bind_ok h3]
  rfl

def H0 : Bytes → Bytes := fun _ => zeroHash

/-- the witness of the former finding C04-SC-SUFFIX: one spend input whose commitment suffix is `aa` -/
def witnessSC : SpendCommitment := ⟨zeroHash, zeroHash, 5, 0, 1, [0x51], []⟩
def witnessTx : TxData :=
  ⟨1, 0, 0, [⟨1, some (.spend witnessSC [0xaa] []), [], []⟩], []⟩

theorem witnessTx_wf : WFTx H0 witnessTx := by
  refine ⟨by decide, by decide, by decide, by decide, ?_, ?_⟩
  · intro i hi
    simp only [witnessTx, List.mem_singleton] at hi
    subst hi
    exact ⟨rfl, ⟨⟨by decide, by decide, by decide, by decide, rfl, by decide, ⟨by decide, by intro s hs; simp [witnessSC] at hs⟩⟩, by decide, ⟨by decide, by intro s hs; simp at hs⟩⟩, by decide, by decide⟩
  · intro o ho
    simp [witnessTx] at ho

/-- … now round-trips: the decoded suffix is `aa`, not `aaaa` -/
example : (decTx H0 (encTx H0 witnessTx)).out = .ok { witnessTx with serializedSize := (encTx H0 witnessTx).length } [] := by
  have := tx_roundtrip_full H0 (fun _ => rfl) witnessTx witnessTx_wf []
  rwa [List.append_nil] at this

/-! ### headers and blocks -/

theorem header_roundtrip (h : BlockHeader) (wf : WFHeader h) (r : Bytes) :
    (decHeader (encHeader 1 h ++ r)).out = .ok (1, h) r := decHeader_enc 1 (Or.inl rfl) h wf r

/-- `BlockHeader.UnmarshalText (BlockHeader.MarshalText h)` -/
theorem header_text_roundtrip (h : BlockHeader) (wf : WFHeader h) :
    (headerFromText (headerToText h)).out = .ok h [] := by
  unfold headerFromText headerToText
  rw [fromText_hex]
  have := decHeader_enc 1 (Or.inl rfl) h wf []
  rw [List.append_nil] at this
  rw [bind_ok this]
  rfl

/-- full serialisation (`SerBlockFull`): header and every transaction come back -/
theorem block_roundtrip_full (H : Bytes → Bytes) (hH : Hash32 H) (b : Block) (wf : WFBlock H b) (r : Bytes) :
    (decBlock H (encBlock H 3 b ++ r)).out =
      .ok (3, ⟨b.header, b.txs.map (fun t => { t with serializedSize := (encTx H t).length })⟩) r :=
  decBlock_enc3 H hH b wf r

/-- header-only serialisation (`SerBlockHeader`): the header comes back, no transactions -/
theorem block_roundtrip_headerOnly (H : Bytes → Bytes) (b : Block) (wf : WFHeader b.header) (r : Bytes) :
    (decBlock H (encBlock H 1 b ++ r)).out = .ok (1, ⟨b.header, []⟩) r := decBlock_enc1 H b wf r

/-- transactions-only serialisation (`SerBlockTransactions`): the transactions come back
    under a zero header -/
theorem block_roundtrip_txsOnly (H : Bytes → Bytes) (hH : Hash32 H) (b : Block) (hn : b.txs.length ≤ max31)
    (wf : ∀ t ∈ b.txs, WFTx H t) (r : Bytes) :
    (decBlock H (encBlock H 2 b ++ r)).out =
      .ok (2, ⟨BlockHeader.zero, b.txs.map (fun t => { t with serializedSize := (encTx H t).length })⟩) r :=
  decBlock_enc2 H hH b hn wf r

/-- `Block.UnmarshalText (Block.MarshalText b)` -/
theorem block_text_roundtrip (H : Bytes → Bytes) (hH : Hash32 H) (b : Block) (wf : WFBlock H b) :
    (blockFromText H (blockToText H 3 b)).out =
      .ok (3, ⟨b.header, b.txs.map (fun t => { t with serializedSize := (encTx H t).length })⟩) [] := by
  unfold blockFromText blockFromTextWith blockToText
  rw [fromText_hex]
  have := block_roundtrip_full H hH b wf []
  rw [List.append_nil] at this
  unfold decBlock at this
  rw [bind_ok this]
  rfl

/-! ### non-vacuity: concrete non-trivial values meet the hypotheses -/

example : Hash32 H0 := fun _ => rfl

theorem wfList_nil : WFList [] := ⟨by decide, by intro s hs; cases hs⟩
theorem wfList_one : WFList [[1, 2]] := ⟨by decide, by decide⟩

def exSC : SpendCommitment := ⟨zeroHash, zeroHash, 5, 1, 1, [0x51], [[1, 2]]⟩
theorem exSC_wf : WFSC exSC := ⟨by decide, by decide, by decide, by decide, rfl, by decide, wfList_one⟩

/-- all four input kinds, a spend commitment suffix, input suffix bytes, a vote output with state data, a retirement output -/
def exTx : TxData :=
  ⟨1, 0, 7,
   [⟨1, some (.issuance [9] 100 [1, 2, 3] 1 [0x51] [[1, 2]]), [0xee], []⟩,
    ⟨1, some (.spend exSC [0xaa, 0xbb] [[1, 2]]), [], [0xdd, 0xcc]⟩,
    ⟨1, some (.coinbase [0xc0]), [], []⟩,
    ⟨1, some (.veto exSC [] [4, 4] []), [], []⟩],
   [⟨1, some ⟨zeroHash, 5, 1, [0x51], [[1, 2]]⟩, [0xab], .vote [7, 7]⟩,
    ⟨1, some ⟨zeroHash, 6, 1, [0x6a, 1], []⟩, [], .original⟩]⟩

example : WFTx H0 exTx := by
  refine ⟨by decide, by decide, by decide, by decide, ?_, ?_⟩
  · intro i hi
    simp only [exTx, List.mem_cons, List.not_mem_nil, or_false] at hi
    rcases hi with rfl | rfl | rfl | rfl
    · exact ⟨rfl, ⟨by decide, by decide, by decide, by decide, by decide, wfList_one⟩, by decide, by decide⟩
    · exact ⟨rfl, ⟨exSC_wf, by decide, wfList_one⟩, by decide, by decide⟩
    · exact ⟨rfl, (by show ([0xc0] : Bytes).length ≤ max31; decide), by decide, by decide⟩
    · exact ⟨rfl, ⟨exSC_wf, by decide, by decide, wfList_nil⟩, by decide, by decide⟩
  · intro o ho
    simp only [exTx, List.mem_cons, List.not_mem_nil, or_false] at ho
    rcases ho with rfl | rfl
    · exact ⟨by decide, (by show ([7, 7] : Bytes).length ≤ max31; decide), by decide, rfl, ⟨by decide, by decide, rfl, by decide, wfList_one⟩⟩
    · exact ⟨by decide, trivial, by decide, rfl, ⟨by decide, by decide, rfl, by decide, wfList_nil⟩⟩

/-- a header with a suplink carrying sparse signatures -/
def exHeader : BlockHeader :=
  ⟨1, 2, zeroHash, 3, zeroHash, [1, 2, 3], [⟨7, zeroHash, [[], [5, 5], [], [], [], [], [], [], [], [6]]⟩]⟩

example : WFHeader exHeader := by
  refine ⟨by decide, by decide, by decide, by decide, by decide, by decide, by decide, by decide, ?_, by decide⟩
  intro s hs
  simp only [exHeader, List.mem_singleton] at hs
  subst hs
  exact ⟨by decide, by decide, by decide, by decide⟩

end BytomModel.Props.C04
