/-
C04 — Encoding round-trips every well-formed ledger value.

Statements are about `BytomModel.Codec` (Model/Codec.lean), the executable model of the Go
`readFrom`/`writeTo` pairs that the differential run compares with the real code on every
check. `H` is the hash used for issuance asset ids (SHA3-256 in the code); the theorems
hold for every `H` with 32-byte output.

The code AS IT IS writes a non-empty spend/veto commitment suffix twice
(`SpendCommitment.writeContents` + `WriteExtensibleString`), so the full statement is
refuted (`tx_roundtrip_full_refuted`); `tx_decode_encode` states exactly what decoding an
encoding yields, and `tx_roundtrip` is the property for every value without such a suffix.
-/
import BytomModel.Lemmas.CodecRT

namespace BytomModel.Props.C04
open BytomModel.Codec BytomModel.Lemmas.Codec

/-! ### primitives -/

/-- every `uint64 ≤ MaxInt64` survives `WriteVarint63` / `ReadVarint63`, whatever follows -/
theorem varint63_roundtrip (n : Nat) (h : n ≤ max63) (r : Bytes) :
    (readVarint63 (putUvarint n ++ r)).out = .ok n r := readVarint63_put n h r

theorem varint31_roundtrip (n : Nat) (h : n ≤ max31) (r : Bytes) :
    (readVarint31 (putUvarint n ++ r)).out = .ok n r := readVarint31_put n h r

theorem varstr31_roundtrip (s : Bytes) (h : s.length ≤ max31) (r : Bytes) :
    (readVarstr31 (encVarstr s ++ r)).out = .ok s r := readVarstr31_enc s h r

theorem varstrList_roundtrip (l : List Bytes) (h : WFList l) (r : Bytes) :
    (readVarstrList (encStrList l ++ r)).out = .ok l r := readVarstrList_enc l h r

/-- `ReadExtensibleString ∘ WriteExtensibleString`: the inner value and the suffix come back -/
theorem extensibleString_roundtrip {α} (f : Dec α) (body suffix : Bytes) (a : α) (r : Bytes)
    (hf : (f (body ++ suffix)).out = .ok a suffix) (hl : (body ++ suffix).length ≤ max31) :
    (readExt f (encExt body suffix ++ r)).out = .ok (a, suffix) r := readExt_enc f body suffix a r hf hl

/-- the hex text layer (`MarshalText`/`UnmarshalText`) -/
theorem hex_roundtrip (bs : Bytes) : hexDecode (hexEncode bs) = some bs := hexDecode_encode bs

/-! ### inputs and outputs -/

/-- decoding the encoding of a well-formed input returns it, with a spend/veto commitment
    suffix doubled (the code as it is) -/
theorem input_decode_encode (H : Bytes → Bytes) (hH : Hash32 H) (i : TxInput) (h : WFInput H i) (r : Bytes) :
    (decInput H (encInput H i ++ r)).out = .ok (dblInput i) r := decInput_enc H hH i h r

/-- no spend/veto input of the transaction carries a commitment suffix -/
def NoSCSuffix (tx : TxData) : Prop :=
  ∀ i ∈ tx.inputs, match i.typed with
    | some (.spend _ suf _) => suf = []
    | some (.veto _ suf _ _) => suf = []
    | _ => True

theorem dblInput_id (i : TxInput) (h : match i.typed with
    | some (.spend _ suf _) => suf = []
    | some (.veto _ suf _ _) => suf = []
    | _ => True) : dblInput i = i := by
  obtain ⟨av, typed, cs, ws⟩ := i
  unfold dblInput
  cases typed with
  | none => rfl
  | some t =>
    cases t with
    | issuance => rfl
    | coinbase => rfl
    | spend sc suf args => simp only at h; subst h; rfl
    | veto sc suf vote args => simp only at h; subst h; rfl

theorem output_roundtrip (o : TxOutput) (h : WFOutput o) (r : Bytes) :
    (decOutput (encOutput o ++ r)).out = .ok o r := decOutput_enc o h r

/-! ### transactions -/

/-- what the code does today, for every well-formed transaction -/
theorem tx_decode_encode (H : Bytes → Bytes) (hH : Hash32 H) (tx : TxData) (h : WFTx H tx) (r : Bytes) :
    (decTx H (encTx H tx ++ r)).out = .ok (canonTx H tx) r := decTx_enc H hH tx h r

/-- the recorded serialized size of a decoded transaction is the length of its encoding -/
theorem tx_serialized_size (H : Bytes → Bytes) (hH : Hash32 H) (tx : TxData) (h : WFTx H tx) (r : Bytes) :
    ∃ tx', (decTx H (encTx H tx ++ r)).out = .ok tx' r ∧ tx'.serializedSize = (encTx H tx).length :=
  ⟨canonTx H tx, decTx_enc H hH tx h r, rfl⟩

theorem canonTx_of_noSuffix (H : Bytes → Bytes) (tx : TxData) (hs : NoSCSuffix tx) :
    canonTx H tx = { tx with serializedSize := (encTx H tx).length } := by
  unfold canonTx
  congr 1
  have : ∀ l : List TxInput, (∀ i ∈ l, dblInput i = i) → l.map dblInput = l := by
    intro l hl
    induction l with
    | nil => rfl
    | cons a l ih =>
      simp only [List.map_cons]
      rw [hl a (by simp), ih (fun i hi => hl i (by simp [hi]))]
  exact this _ (fun i hi => dblInput_id i (hs i hi))

/-- C04 for transactions (partial: no spend/veto commitment suffix): the encoding decodes to
    the same value with the recorded size equal to the encoded length, leaving `r` unread -/
theorem tx_roundtrip (H : Bytes → Bytes) (hH : Hash32 H) (tx : TxData) (h : WFTx H tx) (hs : NoSCSuffix tx) (r : Bytes) :
    (decTx H (encTx H tx ++ r)).out = .ok { tx with serializedSize := (encTx H tx).length } r := by
  rw [decTx_enc H hH tx h r, canonTx_of_noSuffix H tx hs]

/-- exact equality when the value already records its size (any decoded value does) -/
theorem tx_roundtrip_exact (H : Bytes → Bytes) (hH : Hash32 H) (tx : TxData) (h : WFTx H tx) (hs : NoSCSuffix tx)
    (hsize : tx.serializedSize = (encTx H tx).length) :
    (decTx H (encTx H tx)).out = .ok tx [] := by
  have := tx_roundtrip H hH tx h hs []
  rw [List.append_nil] at this
  rw [this, ← hsize]

/-- text form: `TxData.UnmarshalText (TxData.MarshalText tx)` -/
theorem tx_text_roundtrip (H : Bytes → Bytes) (hH : Hash32 H) (tx : TxData) (h : WFTx H tx) (hs : NoSCSuffix tx) :
    (txDataFromText H (txToText H tx)).out = .ok { tx with serializedSize := (encTx H tx).length } [] := by
  unfold txDataFromText txToText
  rw [fromText_hex]
  have := tx_roundtrip H hH tx h hs []
  rw [List.append_nil] at this
  rw [bind_ok this]
  rfl

/-- text form through `Tx.UnmarshalText` (which also runs `MapTx`) for fully typed inputs -/
theorem tx_text_roundtrip_mapped (H : Bytes → Bytes) (hH : Hash32 H) (tx : TxData) (h : WFTx H tx) (hs : NoSCSuffix tx)
    (ht : AllTyped tx) :
    (txFromText H (txToText H tx)).out = .ok { tx with serializedSize := (encTx H tx).length } [] := by
  unfold txFromText txToText
  rw [fromText_hex]
  have h1 := decTx_enc H hH tx h []
  rw [List.append_nil] at h1
  rw [bind_ok h1]
  have h2 : (noTrailing (canonTx H tx) []).out = .ok (canonTx H tx) [] := rfl
  rw [bind_ok h2]
  have h3 : (mapTxD (canonTx H tx) []).out = .ok () [] := by
    unfold mapTxD
    rw [mapTxPanics_canon H tx ht]
    rfl
  rw [bind_ok h3, canonTx_of_noSuffix H tx hs]
  rfl

/-- the property at full strength, for transactions -/
def tx_roundtrip_full : Prop :=
  ∀ (H : Bytes → Bytes), Hash32 H → ∀ tx, WFTx H tx → ∀ r,
    (decTx H (encTx H tx ++ r)).out = .ok { tx with serializedSize := (encTx H tx).length } r

def H0 : Bytes → Bytes := fun _ => zeroHash

/-- witness of the known finding: one spend input whose commitment suffix is `aa` -/
def witnessSC : SpendCommitment := ⟨zeroHash, zeroHash, 5, 0, 1, [0x51], []⟩
def witnessTx : TxData :=
  ⟨1, 0, 0, [⟨1, some (.spend witnessSC [0xaa] []), [], []⟩], []⟩

theorem witnessTx_wf : WFTx H0 witnessTx := by
  refine ⟨by decide, by decide, by decide, by decide, ?_, ?_⟩
  · intro i hi
    simp only [witnessTx, List.mem_singleton] at hi
    subst hi
    refine ⟨by decide, ?_⟩
    exact ⟨rfl, ⟨⟨by decide, by decide, by decide, by decide, rfl, by decide, ⟨by decide, by intro s hs; simp [witnessSC] at hs⟩⟩, by decide, ⟨by decide, by intro s hs; simp at hs⟩⟩, by decide, by decide⟩
  · intro o ho
    simp [witnessTx] at ho

theorem tx_roundtrip_full_refuted : ¬ tx_roundtrip_full := by
  intro hfull
  have h1 := hfull H0 (fun _ => rfl) witnessTx witnessTx_wf []
  rw [decTx_enc H0 (fun _ => rfl) witnessTx witnessTx_wf []] at h1
  have h2 : canonTx H0 witnessTx = { witnessTx with serializedSize := (encTx H0 witnessTx).length } := by
    injection h1
  have h3 := congrArg TxData.inputs h2
  revert h3
  decide

/-! ### headers and blocks -/

theorem header_roundtrip (h : BlockHeader) (wf : WFHeader h) (r : Bytes) :
    (decHeader (encHeader 1 h ++ r)).out = .ok (1, h) r := decHeader_enc 1 (Or.inl rfl) h wf r

/-- `BlockHeader.UnmarshalText (BlockHeader.MarshalText h)` -/
theorem header_text_roundtrip (h : BlockHeader) (wf : WFHeader h) :
    (headerFromText (headerToText h)).out = .ok h [] := by
  unfold headerFromText headerToText
  rw [fromText_hex]
  have := decHeader_enc 1 (Or.inl rfl) h wf []
  rw [List.append_nil] at this
  rw [bind_ok this]
  rfl

/-- full serialisation (`SerBlockFull`): header and every transaction come back -/
theorem block_roundtrip_full (H : Bytes → Bytes) (hH : Hash32 H) (b : Block) (wf : WFBlock H b)
    (hs : ∀ t ∈ b.txs, NoSCSuffix t) (r : Bytes) :
    (decBlock H (encBlock H 3 b ++ r)).out =
      .ok (3, ⟨b.header, b.txs.map (fun t => { t with serializedSize := (encTx H t).length })⟩) r := by
  rw [decBlock_enc3 H hH b wf r]
  congr 3
  apply List.map_congr_left
  intro t ht
  exact canonTx_of_noSuffix H t (hs t ht)

/-- header-only serialisation (`SerBlockHeader`): the header comes back, no transactions -/
theorem block_roundtrip_headerOnly (H : Bytes → Bytes) (b : Block) (wf : WFHeader b.header) (r : Bytes) :
    (decBlock H (encBlock H 1 b ++ r)).out = .ok (1, ⟨b.header, []⟩) r := decBlock_enc1 H b wf r

/-- transactions-only serialisation (`SerBlockTransactions`): the transactions come back
    under a zero header -/
theorem block_roundtrip_txsOnly (H : Bytes → Bytes) (hH : Hash32 H) (b : Block) (hn : b.txs.length ≤ max31)
    (wf : ∀ t ∈ b.txs, WFTx H t ∧ AllTyped t) (hs : ∀ t ∈ b.txs, NoSCSuffix t) (r : Bytes) :
    (decBlock H (encBlock H 2 b ++ r)).out =
      .ok (2, ⟨BlockHeader.zero, b.txs.map (fun t => { t with serializedSize := (encTx H t).length })⟩) r := by
  rw [decBlock_enc2 H hH b hn wf r]
  congr 3
  apply List.map_congr_left
  intro t ht
  exact canonTx_of_noSuffix H t (hs t ht)

/-- `Block.UnmarshalText (Block.MarshalText b)` -/
theorem block_text_roundtrip (H : Bytes → Bytes) (hH : Hash32 H) (b : Block) (wf : WFBlock H b)
    (hs : ∀ t ∈ b.txs, NoSCSuffix t) :
    (blockFromText H (blockToText H 3 b)).out =
      .ok (3, ⟨b.header, b.txs.map (fun t => { t with serializedSize := (encTx H t).length })⟩) [] := by
  unfold blockFromText blockFromTextWith blockToText
  rw [fromText_hex]
  have := block_roundtrip_full H hH b wf hs []
  rw [List.append_nil] at this
  unfold decBlock at this
  rw [bind_ok this]
  rfl

/-! ### non-vacuity: concrete non-trivial values meet the hypotheses -/

example : Hash32 H0 := fun _ => rfl

theorem wfList_nil : WFList [] := ⟨by decide, by intro s hs; cases hs⟩
theorem wfList_one : WFList [[1, 2]] := ⟨by decide, by decide⟩

def exSC : SpendCommitment := ⟨zeroHash, zeroHash, 5, 1, 1, [0x51], [[1, 2]]⟩
theorem exSC_wf : WFSC exSC := ⟨by decide, by decide, by decide, by decide, rfl, by decide, wfList_one⟩

/-- all four input kinds, input suffix bytes, a vote output with state data, a retirement output -/
def exTx : TxData :=
  ⟨1, 0, 7,
   [⟨1, some (.issuance [9] 100 [1, 2, 3] 1 [0x51] [[1, 2]]), [0xee], []⟩,
    ⟨1, some (.spend exSC [] [[1, 2]]), [], [0xdd, 0xcc]⟩,
    ⟨1, some (.coinbase [0xc0]), [], []⟩,
    ⟨1, some (.veto exSC [] [4, 4] []), [], []⟩],
   [⟨1, some ⟨zeroHash, 5, 1, [0x51], [[1, 2]]⟩, [0xab], .vote [7, 7]⟩,
    ⟨1, some ⟨zeroHash, 6, 1, [0x6a, 1], []⟩, [], .original⟩]⟩

example : WFTx H0 exTx := by
  refine ⟨by decide, by decide, by decide, by decide, ?_, ?_⟩
  · intro i hi
    simp only [exTx, List.mem_cons, List.not_mem_nil, or_false] at hi
    rcases hi with rfl | rfl | rfl | rfl
    · exact ⟨by decide, rfl, ⟨by decide, by decide, by decide, by decide, by decide, wfList_one⟩, by decide, by decide⟩
    · exact ⟨by decide, rfl, ⟨exSC_wf, by decide, wfList_one⟩, by decide, by decide⟩
    · exact ⟨by decide, rfl, (by show ([0xc0] : Bytes).length ≤ max31; decide), by decide, by decide⟩
    · exact ⟨by decide, rfl, ⟨exSC_wf, by decide, by decide, wfList_nil⟩, by decide, by decide⟩
  · intro o ho
    simp only [exTx, List.mem_cons, List.not_mem_nil, or_false] at ho
    rcases ho with rfl | rfl
    · exact ⟨by decide, (by show ([7, 7] : Bytes).length ≤ max31; decide), by decide, rfl, ⟨by decide, by decide, rfl, by decide, wfList_one⟩⟩
    · exact ⟨by decide, trivial, by decide, rfl, ⟨by decide, by decide, rfl, by decide, wfList_nil⟩⟩

example : NoSCSuffix exTx := by
  intro i hi
  simp only [exTx, List.mem_cons, List.not_mem_nil, or_false] at hi
  rcases hi with rfl | rfl | rfl | rfl <;> simp [exSC]
example : AllTyped exTx := by
  intro i hi
  simp only [exTx, List.mem_cons, List.not_mem_nil, or_false] at hi
  rcases hi with rfl | rfl | rfl | rfl <;> rfl

/-- a header with a suplink carrying sparse signatures -/
def exHeader : BlockHeader :=
  ⟨1, 2, zeroHash, 3, zeroHash, [1, 2, 3], [⟨7, zeroHash, [[], [5, 5], [], [], [], [], [], [], [], [6]]⟩]⟩

example : WFHeader exHeader := by
  refine ⟨by decide, by decide, by decide, by decide, by decide, by decide, by decide, by decide, ?_, by decide⟩
  intro s hs
  simp only [exHeader, List.mem_singleton] at hs
  subst hs
  exact ⟨by decide, by decide, by decide, by decide⟩

end BytomModel.Props.C04
