import BytomModel.Model.Node
namespace BytomModel.Props.C12
open BytomModel.Node
theorem no_panic (s : State) (b : Header) : (s.processBlock b).2 ≠ .panic := by
  unfold State.processBlock
  repeat' split
  all_goals simp
end BytomModel.Props.C12
