/-
C12 — Blocks delivered in any order are all connected without crashing.

Theorems about `BytomModel.Node` (`Model/Node.lean`: `processBlock`, `saveBlock`,
`saveSubBlock`, the orphan manager, `authVerification`, `restart`), for ALL states, blocks,
event sequences, block sets and permutations.  The model is the VALUE model of the orphan
manager: `/repo` contains the repair of F9 (`GetPrevOrphans` hands out a copy, `Get` tolerates
a removed entry), so the loop of `saveSubBlock` ranges over a list nobody mutates.

Vocabulary (defined in `Lemmas/Node*.lean`):
* `Universe` / `Coh U h` — ids are hashes: a header is a copy of the universe's block with that
  id (same parent id, same height; the header sup links are not covered by the hash).
* `stored s i` — a header with id `i` is in the store.
* `group os p` — ids of the pool members `os` whose parent id is `p`, in arrival order.
* `Inv U s` — the orphan-pool invariant (unfolded by `inv_meaning`).
* `visit fuel` — the body of the `for` loop of `saveSubBlock` (`saveSubBlock_succ` is `rfl`).
* `Desc os a x` — `x` is a pool member whose chain of parents inside the pool `os` leads to `a`.
* `Refused R y` — `saveBlock` answered "error" for `y` in a state satisfying `R` where `y`'s
  parent was stored; `SaveReach s` — the states reached from `s` by `saveBlock` calls.
* `Accepting B Good` — a class of states closed under block processing in which `saveBlock`
  never refuses a `B`-block whose parent is stored; `NoFin U` / `PlainBlock U` — the concrete
  instance "no validator key, no header sup links, no verification messages".
-/
import BytomModel.Lemmas.NodeNoFin

namespace BytomModel.Props.C12
open BytomModel.Node BytomModel.Lemmas.NodeAlist BytomModel.Lemmas.NodePool BytomModel.Lemmas.NodeFrame
open BytomModel.Lemmas.NodeOrphans BytomModel.Lemmas.NodeEvents BytomModel.Lemmas.NodeConnect
open BytomModel.Lemmas.NodeDelivery BytomModel.Lemmas.NodeNoFin

/-! ## 0. events of the node-history engine -/

inductive Event
  | deliver (b : Header)
  | vote (order src tgt : Nat) (sigOk : Bool)
  | restart

/-- one event, as the driver executes it (a failing restart leaves the state alone) -/
def step (s : State) : Event → State
  | .deliver b => (s.processBlock b).1
  | .vote o a t g => (s.authVerification o a t g).1
  | .restart => match s.restart with | some s' => s' | none => s

def run (s : State) (es : List Event) : State := es.foldl step s

/-- delivered blocks are copies of blocks of the universe -/
def EventOk (U : Universe) : Event → Prop
  | .deliver b => Coh U b
  | _ => True

/-! ## 1. the orphan-pool invariant is preserved by every event -/

/-- what `Inv` says: the pool has no duplicate ids; `prevOrphans` has one entry per parent id and
    its entries are exactly the non-empty groups of the pool by parent id, each in arrival order
    (so no empty list and no dangling entry); no stored block is in the pool -/
theorem inv_meaning {U : Universe} {s : State} (h : Inv U s) :
    (s.orphans.map (·.id)).Nodup ∧
    (s.prevOrphans.map (·.1)).Nodup ∧
    (∀ p l, (p, l) ∈ s.prevOrphans ↔ l ≠ [] ∧ l = (s.orphans.filter (fun o => o.parent == p)).map (·.id)) ∧
    (∀ o ∈ s.orphans, ∃ l, (o.parent, l) ∈ s.prevOrphans ∧ o.id ∈ l) ∧
    (∀ o ∈ s.orphans, s.header o.id = none) := by
  refine ⟨h.pool.nodup, h.pool.keys, fun p l => h.pool.mem_iff p l, ?_, ?_⟩
  · intro o ho
    have hm : o.id ∈ group s.orphans o.parent := mem_group.mpr ⟨o, ho, rfl, rfl⟩
    exact ⟨_, (h.pool.mem_iff _ _).mpr ⟨List.ne_nil_of_mem hm, rfl⟩, hm⟩
  · intro o ho
    exact not_stored_iff.mp (h.disjoint o ho)

theorem inv_init {U : Universe} (cfg : Config) {g : Header} (hg : Coh U g) (h0 : g.height = 0) :
    Inv U (State.init cfg g) := BytomModel.Lemmas.NodeNoFin.inv_init cfg hg h0

theorem inv_processBlock {U : Universe} {s : State} (hI : Inv U s) {b : Header} (hb : Coh U b) :
    Inv U (s.processBlock b).1 := BytomModel.Lemmas.NodeEvents.inv_processBlock hI hb

theorem inv_authVerification {U : Universe} {s : State} (hI : Inv U s) (order src tgt : Nat) (sigOk : Bool) :
    Inv U (s.authVerification order src tgt sigOk).1 :=
  BytomModel.Lemmas.NodeEvents.inv_authVerification hI order src tgt sigOk

theorem inv_restart {U : Universe} {s s' : State} (hI : Inv U s) (h : s.restart = some s') :
    Inv U s' ∧ s'.orphans = [] ∧ s'.prevOrphans = [] :=
  ⟨BytomModel.Lemmas.NodeEvents.inv_restart hI h, (restart_frame h).1, (restart_frame h).2.1⟩

theorem inv_step {U : Universe} {s : State} (hI : Inv U s) {e : Event} (he : EventOk U e) : Inv U (step s e) := by
  cases e with
  | deliver b => exact inv_processBlock hI he
  | vote o a t g => exact inv_authVerification hI o a t g
  | restart =>
    simp only [step]
    cases h : s.restart with
    | none => exact hI
    | some s' => exact (inv_restart hI h).1

/-- every history of the engine keeps the invariant -/
theorem inv_run {U : Universe} (es : List Event) : ∀ {s : State}, Inv U s → (∀ e ∈ es, EventOk U e) → Inv U (run s es) := by
  induction es with
  | nil => intro s hI _; exact hI
  | cons e es ih =>
    intro s hI hall
    exact ih (inv_step hI (hall e (by simp))) (fun e' he' => hall e' (by simp [he']))

/-- the pool keeps its arrival order: the pool after an event run of deliveries is a sublist -/
theorem processBlock_pool_order {U : Universe} {s : State} (hI : Inv U s) {b : Header} (hb : Coh U b)
    (hp : stored s b.parent) : ((s.processBlock b).1.orphans).Sublist s.orphans := by
  rcases processBlock_cases s b with ⟨_, e, _⟩ | ⟨_, hnp, _⟩ | ⟨_, _, _, e⟩ | ⟨_, _, hok, e, _⟩
  · rw [e]
  · exact absurd hp hnp
  · rw [e, (grow_saveBlock hI hb).pool]; exact List.filter_sublist
  · rw [e]
    simp only [tryReorganize_orphans]
    have g1 := grow_saveBlock hI hb
    have g2 := ssb_grow g1.inv ((stored_saveBlock_true hok _).mpr (Or.inl rfl)) (s.saveBlock b).1.fuel
    unfold connect
    rw [(g1.trans g2).pool]; exact List.filter_sublist

/-! ## 2. no panic; the loop over the waiting children -/

/-- `processBlock` never answers `panic`.  This is trivial in the value model: the constructor is
    never produced (the Go panic of F9 came from the slice aliasing that `/repo` has repaired).
    The fact that replaces it is `saveSubBlock_visits_each_waiting_child_once`. -/
theorem no_panic (s : State) (b : Header) : (s.processBlock b).2 ≠ .panic := by
  rcases processBlock_cases s b with ⟨_, _, e⟩ | ⟨_, _, e⟩ | ⟨_, _, _, e⟩ | ⟨_, _, _, _, e⟩
  · rw [e]; split <;> simp
  · rw [e]; simp
  · rw [e]; simp
  · rw [e]; split <;> simp

theorem no_panic_vote (s : State) (order src tgt : Nat) (sigOk : Bool) :
    (s.authVerification order src tgt sigOk).2 ≠ .panic := by
  unfold State.authVerification
  dsimp only
  repeat' split
  all_goals simp

/-- **the loop of `saveSubBlock` visits every waiting child of the connected block exactly once**:
    it folds the loop body over the list `group s.orphans a`, which is duplicate free and
    consists exactly of the pool members whose parent is `a` (arrival order); and whenever the
    loop reaches an entry, that child is still in the pool with parent `a` — `Get` never misses,
    no child is skipped, none is visited twice. -/
theorem saveSubBlock_visits_each_waiting_child_once {U : Universe} {s : State} (hI : Inv U s) {a : Nat}
    (ha : stored s a) (fuel : Nat) :
    State.saveSubBlock (fuel + 1) s a = (group s.orphans a).foldl (visit fuel) s ∧
    (group s.orphans a).Nodup ∧
    (∀ o, o ∈ group s.orphans a ↔ ∃ h ∈ s.orphans, h.parent = a ∧ h.id = o) ∧
    (∀ pre o post, group s.orphans a = pre ++ o :: post →
      ∃ ob, lookupHeader (pre.foldl (visit fuel) s).orphans o = some ob ∧ ob.parent = a ∧ ob ∈ s.orphans) :=
  ⟨saveSubBlock_eq_fold hI fuel a, group_nodup hI.pool.nodup a, fun _ => mem_group,
   fun _ _ _ hw => waiting_child_present hI ha fuel hw⟩

/-- `saveSubBlock` keeps the invariant and only moves pool members into the store, whatever the fuel -/
theorem saveSubBlock_grow {U : Universe} {s : State} (hI : Inv U s) {a : Nat} (ha : stored s a) (fuel : Nat) :
    Inv U (State.saveSubBlock fuel s a) ∧
    (∀ i, stored s i → stored (State.saveSubBlock fuel s a) i) ∧
    (State.saveSubBlock fuel s a).orphans =
      s.orphans.filter (fun h => !((State.saveSubBlock fuel s a).header h.id).isSome) :=
  ⟨(ssb_grow hI ha fuel).inv, (ssb_grow hI ha fuel).mono, (ssb_grow hI ha fuel).pool⟩

/-! ## 3. the connection theorem -/

/-- **connection theorem**: the state satisfies the invariant, `b`'s parent is stored, `b` is not
    answered "already processed", `saveBlock` accepts `b`, and the pool is no larger than the
    list of defined blocks (the model's recursion fuel; Go recurses without bound).  Then after
    `processBlock b`, `b` is stored, and every pool member `x` whose chain of parents leads
    (inside the pool) to `b` is stored and no longer in the pool — **unless** `saveBlock` refused
    `x` or a block `y` on that chain: then `y` is still in the pool although its parent is stored
    (this is open finding F29), and the refusal happened in a state reached by `saveBlock` calls. -/
theorem connection {U : Universe} {s : State} (hI : Inv U s) {b : Header} (hb : Coh U b)
    (hp : stored s b.parent) (hne : ¬ Early s b) (hok : (s.saveBlock b).2 = true)
    (hfuel : s.orphans.length ≤ s.defs.length) :
    stored (s.processBlock b).1 b.id ∧
    ∀ x, Desc s.orphans b.id x →
      (stored (s.processBlock b).1 x.id ∧ x ∉ (s.processBlock b).1.orphans) ∨
      ∃ y, Desc s.orphans b.id y ∧ (y = x ∨ Desc s.orphans y.id x) ∧ y ∈ (s.processBlock b).1.orphans ∧
        stored (s.processBlock b).1 y.parent ∧ Refused (SaveReach (s.saveBlock b).1) y :=
  processBlock_connects hI hb hp hne hok hfuel

/-- the fuel hypothesis of `connection` holds whenever every pool member is a defined block (the
    engine defines a block before it delivers it) -/
theorem pool_le_defs {U : Universe} {s : State} (hI : Inv U s)
    (hd : ∀ o ∈ s.orphans, o.id ∈ s.defs.map (·.id)) : s.orphans.length ≤ s.defs.length := by
  have h1 : (s.orphans.map (·.id)).Subperm (s.defs.map (·.id)) :=
    List.subperm_of_subset hI.pool.nodup (fun i hi => by
      obtain ⟨o, ho, e⟩ := List.mem_map.mp hi
      exact e ▸ hd o ho)
  simpa using h1.length_le

/-- … and "every pool member is a defined block" is preserved by the delivery of a defined block -/
theorem poolDefined_processBlock {U : Universe} {s : State} (hI : Inv U s) {b : Header} (hb : Coh U b)
    (hd : ∀ o ∈ s.orphans, o.id ∈ s.defs.map (·.id)) (hbd : b.id ∈ s.defs.map (·.id)) :
    ∀ o ∈ (s.processBlock b).1.orphans, o.id ∈ (s.processBlock b).1.defs.map (·.id) := by
  rcases processBlock_cases s b with ⟨_, e, _⟩ | ⟨_, _, e⟩ | ⟨_, _, _, e⟩ | ⟨_, _, hok, e, _⟩
  · rw [e]; exact hd
  · rw [e]
    intro o ho
    rw [(orphanAdd_poolOnly s b).defs]
    rw [orphanAdd_orphans] at ho
    split at ho
    · exact hd o ho
    · rcases List.mem_append.mp ho with h | h
      · exact hd o h
      · simp at h; subst h; exact hbd
  · rw [e]
    have g := grow_saveBlock hI hb
    intro o ho
    rw [g.defs]
    exact hd o ((g.mem_orphans o).mp ho).1
  · rw [e]
    have g1 := grow_saveBlock hI hb
    have g2 := ssb_grow g1.inv ((stored_saveBlock_true hok _).mpr (Or.inl rfl)) (s.saveBlock b).1.fuel
    have g := g1.trans g2
    intro o ho
    simp only [tryReorganize_orphans, tryReorganize_defs] at ho ⊢
    unfold connect at ho ⊢
    rw [g.defs]
    exact hd o ((g.mem_orphans o).mp ho).1

/-- when `saveBlock` refuses `b` itself, `processBlock` answers `err`, `b` is neither stored anew nor
    put into the pool, and the pool is untouched -/
theorem connection_refused {U : Universe} {s : State} (hp : stored s b.parent) (hne : ¬ Early s b)
    (hok : (s.saveBlock b).2 = false) :
    (s.processBlock b).2 = .err ∧ (s.processBlock b).1.orphans = s.orphans ∧
    (s.processBlock b).1.prevOrphans = s.prevOrphans ∧ (s.processBlock b).1.headers = s.headers := by
  have _ := U
  rcases processBlock_cases s b with ⟨he, _⟩ | ⟨_, hnp, _⟩ | ⟨_, _, _, e⟩ | ⟨_, _, ht, _⟩
  · exact absurd he hne
  · exact absurd hp hnp
  · rw [e]
    have hc := saveBlock_false hok
    exact ⟨rfl, hc.orphans, hc.prevOrphans, hc.headers⟩
  · rw [hok] at ht; cases ht

/-- in a class of states where `saveBlock` accepts (`Accepting`), nothing under `b` is left behind -/
theorem connection_accepting {U : Universe} {B : Header → Prop} {Good : State → Prop} (hA : Accepting B Good)
    {s : State} (hI : Inv U s) (hG : Good s) (hNL : NoLeft s) (hBo : ∀ o ∈ s.orphans, B o) {b : Header}
    (hb : Coh U b) (hBb : B b) (hfresh : ¬ stored s b.id) (hnp : ¬ s.isOrphan b.id = true)
    (hfuel : s.orphans.length ≤ s.defs.length) :
    Inv U (s.processBlock b).1 ∧ Good (s.processBlock b).1 ∧
    (∀ o ∈ (s.processBlock b).1.orphans, ¬ stored (s.processBlock b).1 o.parent) ∧
    (stored (s.processBlock b).1 b.id ∨ b ∈ (s.processBlock b).1.orphans) := by
  have st := deliver_step hA hI hG hNL hBo hb hBb hfresh hnp hfuel
  exact ⟨st.inv, st.good, st.noLeft, st.delivered⟩

/-! ## 4. the delivery-order theorem -/

/-- **a concrete sufficient condition**: the node holds no validator key, epochs have ≥ 2 blocks, the
    blocks carry no header sup links and no verification message is processed (`NoFin`).  Then
    `saveBlock` accepts every plain block whose parent is stored, and the class is closed under
    `saveBlock`, `OrphanManage.Add` and `tryReorganize`. -/
theorem noFin_sufficient (U : Universe) : Accepting (PlainBlock U) (NoFin U) := noFin_accepting U

theorem noFin_saveBlock_accepts {U : Universe} {s : State} (h : NoFin U s) {b : Header} (hb : PlainBlock U b)
    (hp : stored s b.parent) : (s.saveBlock b).2 = true ∧ NoFin U (s.saveBlock b).1 :=
  noFin_saveBlock h hb hp

/-- **delivery-order theorem** (acceptance as a hypothesis): `s0` satisfies the invariant with an empty
    pool and lies in an accepting class; `bs` is a finite set of valid blocks with distinct ids,
    none stored yet, parent-closed relative to the store, all defined.  Then for ANY permutation
    `σ` of `bs`, delivering `σ` stores all of them, leaves the pool and the waiting index empty,
    and the stored set is `stored s0 ∪ bs` — the same for every order, in particular the
    in-order run's. -/
theorem delivery_order {U : Universe} {B : Header → Prop} {Good : State → Prop} (hA : Accepting B Good) {s0 : State}
    (hI0 : Inv U s0) (hG0 : Good s0) (he : s0.orphans = []) {bs : List Header}
    (hv : ∀ b ∈ bs, B b ∧ Valid U b) (hnd : (bs.map (·.id)).Nodup) (hfresh : ∀ b ∈ bs, ¬ stored s0 b.id)
    (hclosed : ∀ b ∈ bs, stored s0 b.parent ∨ b.parent ∈ bs.map (·.id)) (hdefs : bs.length ≤ s0.defs.length)
    {σ : List Header} (hσ : σ.Perm bs) :
    (∀ b ∈ bs, stored (run s0 (σ.map .deliver)) b.id) ∧ (run s0 (σ.map .deliver)).orphans = [] ∧
    (run s0 (σ.map .deliver)).prevOrphans = [] ∧
    (∀ i, stored (run s0 (σ.map .deliver)) i ↔ stored s0 i ∨ i ∈ bs.map (·.id)) := by
  have hrun : run s0 (σ.map .deliver) = σ.foldl deliver s0 := by
    unfold run; rw [List.foldl_map]; rfl
  rw [hrun]
  obtain ⟨h1, h2, h3, h4, _, _⟩ := BytomModel.Lemmas.NodeDelivery.delivery_order hA hI0 hG0 he hv hnd hfresh hclosed hdefs hσ
  exact ⟨h1, h2, h3, h4⟩

/-- **delivery of an arbitrary block set** (not parent-closed), acceptance as a hypothesis: whatever
    the order, the connected blocks are exactly those all of whose ancestors were delivered
    (`Rooted`), the others — and only they — wait in the pool, and no orphan whose parent is stored
    is left behind -/
theorem delivery_order_general {U : Universe} {B : Header → Prop} {Good : State → Prop} (hA : Accepting B Good)
    {s0 : State} (hI0 : Inv U s0) (hG0 : Good s0) (he : s0.orphans = []) {bs : List Header}
    (hv : ∀ b ∈ bs, B b ∧ Valid U b) (hnd : (bs.map (·.id)).Nodup) (hfresh : ∀ b ∈ bs, ¬ stored s0 b.id)
    (hdefs : bs.length ≤ s0.defs.length) {σ : List Header} (hσ : σ.Perm bs) :
    (∀ b ∈ bs, stored (run s0 (σ.map .deliver)) b.id ↔ Rooted s0 bs b) ∧
    (∀ b ∈ bs, b ∈ (run s0 (σ.map .deliver)).orphans ↔ ¬ Rooted s0 bs b) ∧
    (∀ o ∈ (run s0 (σ.map .deliver)).orphans, o ∈ bs ∧ ¬ stored (run s0 (σ.map .deliver)) o.parent) := by
  have hrun : run s0 (σ.map .deliver) = σ.foldl deliver s0 := by
    unfold run; rw [List.foldl_map]; rfl
  rw [hrun]
  obtain ⟨h1, h2, h3, h4, _⟩ := delivery_general hA hI0 hG0 he hv hnd hfresh hdefs hσ
  exact ⟨h1, h2, fun o ho => ⟨h3 o ho, h4 o ho⟩⟩

/-- the full statement for histories from the initial state: ANY configuration, blocks may carry
    header sup links -/
def c12_full : Prop :=
  ∀ (U : Universe) (cfg : Config) (g : Header) (bs σ : List Header),
    2 ≤ cfg.epoch → Coh U g → g.height = 0 →
    (∀ b ∈ bs, Valid U b) → (bs.map (·.id)).Nodup → (∀ b ∈ bs, b.id ≠ g.id) →
    (∀ b ∈ bs, b.parent = g.id ∨ b.parent ∈ bs.map (·.id)) → σ.Perm bs →
    let s' := run { State.init cfg g with defs := bs ++ [g] } (σ.map .deliver)
    (∀ b ∈ bs, stored s' b.id) ∧ s'.orphans = [] ∧ s'.prevOrphans = [] ∧
    (∀ i, stored s' i ↔ i = g.id ∨ i ∈ bs.map (·.id))

/-- **the proved part**: the full statement restricted to nodes without a validator key and blocks
    without header sup links -/
theorem c12_partial (U : Universe) (cfg : Config) (g : Header) (bs σ : List Header)
    (hme : cfg.me = none) (hsup : ∀ b ∈ bs, b.sup = [])
    (he : 2 ≤ cfg.epoch) (hg : Coh U g) (h0 : g.height = 0)
    (hv : ∀ b ∈ bs, Valid U b) (hnd : (bs.map (·.id)).Nodup) (hne : ∀ b ∈ bs, b.id ≠ g.id)
    (hclosed : ∀ b ∈ bs, b.parent = g.id ∨ b.parent ∈ bs.map (·.id)) (hσ : σ.Perm bs) :
    let s' := run { State.init cfg g with defs := bs ++ [g] } (σ.map .deliver)
    (∀ b ∈ bs, stored s' b.id) ∧ s'.orphans = [] ∧ s'.prevOrphans = [] ∧
    (∀ i, stored s' i ↔ i = g.id ∨ i ∈ bs.map (·.id)) := by
  intro s'
  have hst0 : ∀ i, stored ({ State.init cfg g with defs := bs ++ [g] } : State) i ↔ i = g.id := by
    intro i; rw [stored_iff]; simp [State.init]
  have hI0 : Inv U ({ State.init cfg g with defs := bs ++ [g] } : State) :=
    (inv_init cfg hg h0).of_eq rfl rfl rfl
  have hG0 : NoFin U ({ State.init cfg g with defs := bs ++ [g] } : State) :=
    (noFin_init hme he hg h0).of_eq rfl rfl rfl rfl
  have := delivery_order (noFin_sufficient U) hI0 hG0 rfl (bs := bs)
    (fun b hb => ⟨⟨hsup b hb, hv b hb⟩, hv b hb⟩) hnd
    (fun b hb hs => hne b hb ((hst0 _).mp hs))
    (fun b hb => (hclosed b hb).imp (fun e => (hst0 _).mpr e) id)
    (by simp) hσ
  obtain ⟨h1, h2, h3, h4⟩ := this
  refine ⟨h1, h2, h3, fun i => ?_⟩
  rw [h4, hst0]

/-- the order of delivery does not matter for the stored set (two permutations of one block set) -/
theorem delivery_order_irrelevant {U : Universe} {B : Header → Prop} {Good : State → Prop} (hA : Accepting B Good)
    {s0 : State} (hI0 : Inv U s0) (hG0 : Good s0) (he : s0.orphans = []) {bs : List Header}
    (hv : ∀ b ∈ bs, B b ∧ Valid U b) (hnd : (bs.map (·.id)).Nodup) (hfresh : ∀ b ∈ bs, ¬ stored s0 b.id)
    (hclosed : ∀ b ∈ bs, stored s0 b.parent ∨ b.parent ∈ bs.map (·.id)) (hdefs : bs.length ≤ s0.defs.length)
    {σ τ : List Header} (hσ : σ.Perm bs) (hτ : τ.Perm bs) (i : Nat) :
    stored (run s0 (σ.map .deliver)) i ↔ stored (run s0 (τ.map .deliver)) i := by
  rw [(delivery_order hA hI0 hG0 he hv hnd hfresh hclosed hdefs hσ).2.2.2 i,
      (delivery_order hA hI0 hG0 he hv hnd hfresh hclosed hdefs hτ).2.2.2 i]

/-! ## 5. the full statement is false on the unchanged tree: open finding F29

Epochs of 2 blocks, one validator, the node holds no key.  Chain 1-2-3-4 over genesis 0 and a fork
block 5 on top of 1.  The delivered copy of 2 carries the validator's vote 0→2, the copy of 4 its
vote 2→4.  Blocks 2, 3, 4, 5 arrive before 1.  When 1 arrives, `saveSubBlock` connects 2, 3, 4 —
which justifies 4, finalizes 2 and prunes the checkpoint tree to the subtree of 2 — and then
turns to 5, whose `saveBlock` is refused (its checkpoint is no longer in the tree).  5 stays in the
pool although its parent 1 is stored.  The same history is `corpus/node/c12-f29-…txt`; the real
node ends in the same state (oracle signature `C12:orphan-left-conflicting-with-finalized`). -/

deriving instance DecidableEq for Header

def wU : Universe :=
  { parent := fun i => match i with | 0 => 4294967295 | 5 => 1 | n + 1 => n,
    height := fun i => match i with | 5 => 2 | n => n }
def wg : Header := { id := 0, parent := 4294967295, height := 0, slot := 0, rank := 0, sup := [] }
/-- a header sup link with validator 0's valid signature -/
def wvote (src h : Nat) : List SupLink := [{ src := src, srcHeight := h, sigs := [{ slot := 0, valid := true }] }]
def w1 : Header := { id := 1, parent := 0, height := 1, slot := 1, rank := 0, sup := [] }
def w2 : Header := { id := 2, parent := 1, height := 2, slot := 2, rank := 0, sup := wvote 0 0 }
def w3 : Header := { id := 3, parent := 2, height := 3, slot := 3, rank := 0, sup := [] }
def w4 : Header := { id := 4, parent := 3, height := 4, slot := 4, rank := 0, sup := wvote 2 2 }
def w5 : Header := { id := 5, parent := 1, height := 2, slot := 3, rank := 0, sup := [] }
def wcfg : Config := { epoch := 2, nVal := 1, me := none }
def wbs : List Header := [w1, w2, w3, w4, w5]
def wσ : List Header := [w2, w3, w4, w5, w1]
/-- the state the F29 history ends in (built by running the model) -/
def wfinal : State := run { State.init wcfg wg with defs := wbs ++ [wg] } (wσ.map .deliver)

/-- the F29 witness, evaluated by the kernel: 5 is still in the pool and in the waiting index under
    its parent 1, 1 is stored, 5 is not, and the tree root is the finalized checkpoint 2 -/
theorem f29_witness :
    wfinal.orphans = [w5] ∧ wfinal.prevOrphans = [(1, [5])] ∧ stored wfinal 1 ∧ ¬ stored wfinal 5 ∧
    wfinal.tree.ckpt.hash = 2 ∧ wfinal.tree.ckpt.status = .finalized ∧
    wfinal.storeOrder = [0, 1, 2, 3, 4] := by
  unfold stored
  decide +kernel

theorem wbs_valid : ∀ b ∈ wbs, Valid wU b := by
  intro b hb
  simp only [wbs, List.mem_cons, List.not_mem_nil, or_false] at hb
  rcases hb with rfl | rfl | rfl | rfl | rfl <;> exact ⟨⟨rfl, rfl⟩, rfl⟩

theorem c12_full_refuted : ¬ c12_full := by
  intro h
  have h' := h wU wcfg wg wbs wσ (by decide) ⟨rfl, rfl⟩ rfl wbs_valid (by decide) (by decide) (by decide)
    (List.perm_append_comm (l₁ := [w2, w3, w4, w5]) (l₂ := [w1]))
  have h1 : wfinal.orphans = [] := h'.2.1
  rw [f29_witness.1] at h1
  cases h1

/-! ## 6. the hypotheses of the theorems are satisfiable on non-trivial values (tests, by evaluation) -/

/-- plain copies (no sup links) of the same blocks -/
def p2 : Header := { w2 with sup := [] }
def p4 : Header := { w4 with sup := [] }
def pbs : List Header := [w1, p2, w3, p4, w5]
def ws0 : State := { State.init wcfg wg with defs := pbs ++ [wg] }
/-- 2, 3, 5 wait in the pool for 1 -/
def wpool : State := run ws0 [.deliver p2, .deliver w3, .deliver w5]

theorem ws0_inv : Inv wU ws0 := (inv_init wcfg ⟨rfl, rfl⟩ rfl).of_eq rfl rfl rfl

/-- `inv_run` / `inv_step`: a history with three orphans, a connecting block, a vote and a restart -/
example : Inv wU (run ws0 [.deliver p2, .deliver w3, .deliver w5, .deliver w1, .vote 0 0 2 true, .restart]) :=
  inv_run _ ws0_inv (by
    intro e he
    simp only [List.mem_cons, List.not_mem_nil, or_false] at he
    rcases he with rfl | rfl | rfl | rfl | rfl | rfl <;> first | exact ⟨rfl, rfl⟩ | trivial)

theorem wpool_inv : Inv wU wpool :=
  inv_run _ ws0_inv (by
    intro e he
    simp only [List.mem_cons, List.not_mem_nil, or_false] at he
    rcases he with rfl | rfl | rfl <;> exact ⟨rfl, rfl⟩)

/-- the pool of `wpool` is non-trivial: two siblings wait for 1, one block waits for 2 -/
example : wpool.orphans = [p2, w3, w5] ∧ wpool.prevOrphans = [(1, [2, 5]), (2, [3])] := by decide +kernel

/-- `connection`: all hypotheses hold for `wpool` and the arriving block 1, and 3 hangs under 1 via 2 -/
example : stored wpool w1.parent ∧ ¬ Early wpool w1 ∧ (wpool.saveBlock w1).2 = true ∧
    wpool.orphans.length ≤ wpool.defs.length := by
  unfold stored Early bestHeight
  decide +kernel
example : Desc wpool.orphans w1.id w3 := by
  have hp : wpool.orphans = [p2, w3, w5] := by decide +kernel
  rw [hp]
  exact Desc.step (m := p2) (by simp) (Desc.child (by simp) rfl) rfl
/-- … and the conclusion, evaluated: everything under 1 is connected when nothing is refused -/
example : (wpool.processBlock w1).1.orphans = [] ∧ (wpool.processBlock w1).1.storeOrder = [0, 1, 2, 3, 5] := by
  decide +kernel

/-- `saveSubBlock_visits_each_waiting_child_once`: after `saveBlock 1` the waiting list of 1 is [2, 5] -/
example : Inv wU (wpool.saveBlock w1).1 ∧ stored (wpool.saveBlock w1).1 1 ∧
    group (wpool.saveBlock w1).1.orphans 1 = [2, 5] :=
  ⟨BytomModel.Lemmas.NodeOrphans.inv_saveBlock wpool_inv ⟨rfl, rfl⟩, by unfold stored; decide +kernel, by decide +kernel⟩

/-- `connection_refused`: in the F29 end state a new block on top of 1 (below the finalized
    checkpoint) is refused (a re-delivered copy of 5 itself is answered "already processed") -/
def w6 : Header := { id := 6, parent := 1, height := 2, slot := 4, rank := 0, sup := [] }
example : stored wfinal w6.parent ∧ ¬ Early wfinal w6 ∧ (wfinal.saveBlock w6).2 = false ∧ Early wfinal w5 := by
  unfold stored Early bestHeight
  decide +kernel

theorem pbs_plain : ∀ b ∈ pbs, PlainBlock wU b := by
  intro b hb
  simp only [pbs, List.mem_cons, List.not_mem_nil, or_false] at hb
  rcases hb with rfl | rfl | rfl | rfl | rfl <;> exact ⟨rfl, ⟨rfl, rfl⟩, rfl⟩

/-- `c12_partial` / `delivery_order` / `noFin_*`: the same tree without votes, delivered children first -/
example : let s' := run ws0 ([p2, w3, p4, w5, w1].map .deliver)
    (∀ b ∈ pbs, stored s' b.id) ∧ s'.orphans = [] ∧ s'.prevOrphans = [] ∧
    (∀ i, stored s' i ↔ i = wg.id ∨ i ∈ pbs.map (·.id)) :=
  c12_partial wU wcfg wg pbs [p2, w3, p4, w5, w1] rfl (fun b hb => (pbs_plain b hb).sup) (by decide) ⟨rfl, rfl⟩ rfl
    (fun b hb => (pbs_plain b hb).valid) (by decide) (by decide) (by decide)
    (List.perm_append_comm (l₁ := [p2, w3, p4, w5]) (l₂ := [w1]))

/-- `delivery_order_general`: 1, 3, 5 delivered without 2 — 3 is not rooted and waits, 1 and 5 connect -/
example : let s' := run ws0 ([w3, w5, w1].map .deliver)
    s'.orphans = [w3] ∧ s'.storeOrder = [0, 1, 5] ∧ ¬ stored s' w3.parent := by
  unfold stored
  decide +kernel

/-- `connection_accepting` / `noFin_saveBlock_accepts`: `wpool` is in the no-finalization class -/
example : NoFin wU ws0 ∧ PlainBlock wU w1 ∧ stored ws0 w1.parent :=
  ⟨(noFin_init rfl (by decide) ⟨rfl, rfl⟩ rfl).of_eq rfl rfl rfl rfl, pbs_plain w1 (by simp [pbs]), by unfold stored; decide +kernel⟩

end BytomModel.Props.C12
