/-
C38 — blocks proposed by the node pass the node's own validation.

Model: `Model/NodePool.State.propose` = the proposer's selection loop
(`proposal.blockBuilder.applyTransactionFromPool` / `preValidateTxs`): the pool in arrival order,
each transaction loaded into ONE running utxo view (`GetTransactionsUtxo`, on demand) and applied
at height best+1 (`ApplyTransaction`, whose spend loop leaves its marks behind when it fails); a
refused transaction is removed from the pool.  The block is then attached by `reorganizeChain`
(`NodeLedger.ledgerReorg`): a fresh view, the inputs of ALL block transactions loaded first, the
coinbase applied first.

(1) `propose_applies` / `proposed_block_attaches`: the included transactions, applied in order
    after the coinbase on the persisted view, all succeed — the two views are related by `Rel`
    (equal on the inputs of the included transactions up to spent-marks left by refused ones).
(2) `propose_removes_refused`, `included_stay_pooled`, `conflict_later_refused`,
    `child_needs_parent`: what the loop does with refused / conflicting / chained transactions.
(3) `proposed_block_valid`: `processBlock` of the proposed block answers ok and makes it best,
    under the hypotheses spelled out there; `proposer_coinbase_passes` (C14) discharges the
    coinbase-amount part of the context-free validity flag, `validBlock_of_slot` the header part.
Not modelled (assumed, see notes): consensus validation of the pool transactions themselves
(C01/C13), the gas budget, the soft limit of 1024 transactions and the proposer's timeouts,
the merkle root, the block signature as bytes.
-/
import BytomModel.Lemmas.Proposer
import BytomModel.Lemmas.NodePoolInv
import BytomModel.Lemmas.C13Chain
import BytomModel.Props.C14

namespace BytomModel.Props.C38
open BytomModel.Node BytomModel.Ledger BytomModel.NodeLedger BytomModel.NodePool
open BytomModel.Lemmas.PoolView BytomModel.Lemmas.Proposer

/-! ### (1) the proposed transactions apply -/

/-- pool transactions in arrival order -/
def poolTxs (s : NodePool.State) : List Ledger.Tx := (s.pool.pool.map (·.1)).filterMap s.txById

/-- the transactions the proposer puts into its block (after the coinbase), in order -/
def proposedTxs (s : NodePool.State) : List Ledger.Tx := s.propose.1.filterMap s.txById

/-- the model's fold is the function-level selection loop started on the persisted view -/
theorem proposedTxs_eq (s : NodePool.State) :
    proposedTxs s = (selF s.base.params (proposeHeight s) (poolTxs s) (vget s.base.utxo)).1 := by
  unfold proposedTxs poolTxs
  rw [propose_eq]
  simp only
  rw [propose_fold_spec]
  simp only [List.filterMap_nil, List.nil_append, vget_nil, eff_empty]

/-- **C38 (1).** The block the proposer builds passes the ledger part of its own attachment:
    `UtxoViewpoint.ApplyBlock` at height best+1 on a fresh view into which the inputs of all block
    transactions were loaded from the persisted set succeeds for `coinbase :: included`.
    Hypotheses: the coinbase spends nothing, and its output ids are new (no pool transaction
    spends them). -/
theorem propose_applies (s : NodePool.State) (cb : Ledger.Tx) (hcb : cb.ins = [])
    (hfresh : ∀ o ∈ cb.outs, o.id ∉ (proposedTxs s).flatMap (·.ins)) :
    (applyBlockTxs s.base.params (proposeHeight s) true (cb :: proposedTxs s)
      (loadSpent s.base.utxo (cb :: proposedTxs s) [])).isSome = true := by
  rw [applyBlockTxs_F, loadSpent_F, vget_nil]
  unfold attachF
  simp only [hcb, spendF, Bool.true_and, List.flatMap_cons, List.nil_append]
  rw [proposedTxs_eq] at hfresh ⊢
  apply attach_of_selF _ _ ((selF s.base.params (proposeHeight s) (poolTxs s) (vget s.base.utxo)).1.flatMap (·.ins))
  · intro t ht o ho
    exact List.mem_flatMap.mpr ⟨t, ht, ho⟩
  · intro o ho
    left
    rw [outF_other _ _ _ _ _ (fun hm => by
      obtain ⟨x, hx, hxo⟩ := List.mem_map.mp hm
      exact hfresh x hx (hxo ▸ ho))]
    unfold loadF
    simp only [ho, if_true]

/-- the ledger part of `reorganizeChain` for the single attached block succeeds -/
theorem proposed_block_attaches (s : NodePool.State) (hb : Header) (cb : Ledger.Tx) (hcb : cb.ins = [])
    (hfresh : ∀ o ∈ cb.outs, o.id ∉ (proposedTxs s).flatMap (·.ins))
    (htxs : s.base.txsOf hb.id = cb :: proposedTxs s) (hh : hb.height = proposeHeight s) :
    (s.base.ledgerReorg [hb] []).isSome = true := by
  have h1 := propose_applies s cb hcb hfresh
  unfold NodeLedger.State.ledgerReorg
  simp only [List.foldl_nil, List.foldl_cons, htxs, hh]
  cases hq : applyBlockTxs s.base.params (proposeHeight s) true (cb :: proposedTxs s)
      (loadSpent s.base.utxo (cb :: proposedTxs s) []) with
  | none => rw [hq] at h1; cases h1
  | some v => rfl

/-! ### (2) refused, conflicting and chained transactions -/

open BytomModel.Lemmas.NodePoolInv (poolIds)

/-- the proposer only includes pool transactions -/
theorem included_are_pooled (s : NodePool.State) (id : Nat) (h : id ∈ s.propose.1) : id ∈ poolIds s := by
  rw [propose_eq] at h
  simp only at h
  by_cases hin : id ∈ poolIds s
  · exact hin
  · have := (propStep_frame s (proposeHeight s) id _ ([], [], s.pool) hin).1.mp h
    cases this

theorem proposed_sub_pool (s : NodePool.State) : ∀ t ∈ proposedTxs s, t ∈ poolTxs s := by
  rw [proposedTxs_eq]
  exact selF_sub _ _ _ _

/-- **C38 (2a).** A pool transaction the running view refuses (= one the loop does not include,
    see `proposedTxs_eq`) is removed from the pool … -/
theorem propose_removes_refused (s : NodePool.State) (hk : (poolIds s).Nodup) (id : Nat) (hin : id ∈ poolIds s)
    (hq : (s.txById id).isSome) (hnot : id ∉ s.propose.1) : TxPool.amGet s.propose.2.pool.pool id = none := by
  rw [propose_eq] at hnot ⊢
  simp only at hnot ⊢
  rcases propStep_partition s (proposeHeight s) id _ ([], [], s.pool) hk hin hq (by simp) with h | h
  · exact absurd h.1 hnot
  · exact h.2

/-- … and an included one keeps its pool entry (it leaves the pool when its block is attached, C23) -/
theorem included_stay_pooled (s : NodePool.State) (hk : (poolIds s).Nodup) (id : Nat)
    (hq : (s.txById id).isSome) (hinc : id ∈ s.propose.1) :
    TxPool.amGet s.propose.2.pool.pool id = TxPool.amGet s.pool.pool id := by
  have hin := included_are_pooled s id hinc
  rw [propose_eq] at hinc ⊢
  simp only at hinc ⊢
  rcases propStep_partition s (proposeHeight s) id _ ([], [], s.pool) hk hin hq (by simp) with h | h
  · exact h.2
  · exact absurd hinc h.1

/-- **C38 (2b).** Conflicting pool transactions: of all pool transactions spending an output `o`
    (whose id no pool transaction creates) at most one is included — the first one in arrival
    order that the view accepts marks `o` spent and every later one is refused
    (`Lemmas/Proposer.spent_blocks`). -/
theorem conflict_one_included (s : NodePool.State) (o : Nat) (hno : ∀ t ∈ poolTxs s, o ∉ t.outs.map (·.id)) :
    ((proposedTxs s).filter (fun t => decide (o ∈ t.ins))).length ≤ 1 := by
  rw [proposedTxs_eq]
  exact conflict_one_winner _ _ o _ _ hno

/-- the first pool transaction is included iff the persisted view lets it spend all its inputs;
    with `conflict_one_included`: of two conflicting transactions at the head of the pool exactly
    the first is included -/
theorem head_included_iff (s : NodePool.State) (t : Ledger.Tx) (rest : List Ledger.Tx) (hp : poolTxs s = t :: rest) :
    t ∈ proposedTxs s ↔ (spendF s.base.params (proposeHeight s) t.ins (vget s.base.utxo)).2 = true ∨
      t ∈ (selF s.base.params (proposeHeight s) rest (spendF s.base.params (proposeHeight s) t.ins (vget s.base.utxo)).1).1 := by
  rw [proposedTxs_eq, hp, selF]
  cases hok : (spendF s.base.params (proposeHeight s) t.ins (vget s.base.utxo)).2
  · simp
  · simp

/-- **C38 (2c).** Chained pool transactions: an included transaction that spends an output the
    persisted utxo set does not hold has the transaction creating that output included too
    (before it: the output enters the running view only through `applyOutputUtxo` of an included
    transaction). -/
theorem child_needs_parent (s : NodePool.State) (o : Nat) (t2 : Ledger.Tx) (ho : o ∈ t2.ins)
    (hdb : vget s.base.utxo o = none) (h2 : t2 ∈ proposedTxs s) :
    ∃ t1 ∈ proposedTxs s, o ∈ t1.outs.map (·.id) := by
  rw [proposedTxs_eq] at h2 ⊢
  exact BytomModel.Lemmas.Proposer.child_needs_parent _ _ o t2 ho _ _ hdb h2

/-! ### (3) the proposed block is accepted and becomes the best block -/

theorem calcReorg_child (n : Node.State) (k : Nat) (nb ob : Header) (hne : (nb.id == ob.id) = false)
    (hh : nb.height = ob.height + 1) (hp : n.header nb.parent = some ob) :
    n.calcReorg (k + 2) nb ob [] [] = some ([nb], []) := by
  have hle : ob.height ≤ nb.height := by omega
  have hnle : ¬ nb.height ≤ ob.height := by omega
  have hbeq : (ob.id == ob.id) = true := by simp
  rw [Node.State.calcReorg]
  simp only [hne, Bool.false_eq_true, if_false, ge_iff_le, hle, hnle, if_true, hp]
  rw [Node.State.calcReorg]
  simp only [hbeq, if_true]

theorem step_res (s : NodePool.State) (f : NodeLedger.State → NodeLedger.State × Res) : (s.step f).2 = (f s.base).2 := rfl

/-- the chain + ledger layer accepts the block -/
theorem base_accepts (s : NodePool.State) (b : Header) (cb : Ledger.Tx) (nb ob : Header)
    (hcb : cb.ins = []) (hfresh : ∀ o ∈ cb.outs, o.id ∉ (proposedTxs s).flatMap (·.ins))
    (htxs : s.base.txsOf b.id = cb :: proposedTxs s)
    (hvalid : s.base.validBlock b = true)
    (hpool : ∀ x, x ∈ s.base.node.orphans → ∀ n, s.base.validIn n x = true)
    (hok : (s.base.node.processBlock b).2 = .ok) (hbest : (s.base.node.processBlock b).1.best = b.id)
    (hnew : b.id ≠ s.base.node.best)
    (hnb : (s.base.node.processBlock b).1.header b.id = some nb)
    (hob : (s.base.node.processBlock b).1.header s.base.node.best = some ob)
    (hpar : nb.parent = s.base.node.best) (hid : nb.id = b.id) (hobid : ob.id = s.base.node.best)
    (hheight : nb.height = ob.height + 1) (hprop : nb.height = proposeHeight s) :
    (s.base.processBlock b).2 = .ok ∧ (s.base.processBlock b).1.node.best = b.id := by
  have hattach : (s.base.ledgerReorg [nb] []).isSome = true :=
    proposed_block_attaches s nb cb hcb hfresh (hid ▸ htxs) hprop
  unfold NodeLedger.State.processBlock
  rw [BytomModel.Lemmas.C13.processBlock_eq_node s.base b hvalid hpool]
  simp only
  unfold NodeLedger.State.settle
  have hne : ((s.base.node.processBlock b).1.best == s.base.node.best) = false := by
    rw [hbest]; simpa using hnew
  simp only [hne, Bool.false_eq_true, if_false]
  rw [hbest, hnb, hob]
  simp only
  obtain ⟨k, hk⟩ : ∃ k, 2 * (s.base.node.processBlock b).1.fuel = k + 2 :=
    ⟨2 * (s.base.node.processBlock b).1.fuel - 2, by unfold Node.State.fuel; omega⟩
  have hidne : (nb.id == ob.id) = false := by rw [hid, hobid]; simpa using hnew
  rw [hk, calcReorg_child _ k nb ob hidne hheight (hpar ▸ hob)]
  simp only
  cases hl : s.base.ledgerReorg [nb] [] with
  | none => rw [hl] at hattach; cases hattach
  | some uc =>
    obtain ⟨u, c⟩ := uc
    simp only
    exact ⟨hok, hbest⟩

/-- **C38 (3).** After the proposer has run (`s.propose.2`: refused transactions removed),
    `processBlock` of the block it built — coinbase `cb` followed by the included transactions,
    at height best+1 on the best block — answers `ok` and the block is the new best block.
    Hypotheses, all about the layers this property does not own:
    * `hvalid`: `ValidateBlock` passes — the header part (`validBlock_of_slot`: the timestamp is
      in the window and in a slot of the validator that signed; this is where "the block's slot
      belongs to the local validator" enters) and the context-free flag (coinbase amounts:
      `proposer_coinbase_passes`; transaction validity, gas and merkle root are assumed);
    * `hpool`: the blocks waiting in the orphan pool pass `ValidateBlock` when they are connected
      (`saveBlock` validates a block that leaves the pool; an invalid one is dropped) — then the
      chain step of the node with ledger is `Node.State.processBlock`, which `hok` … speak about;
    * `hok`, `hbest`: Casper's `ApplyBlock` accepts the block and `tryReorganize` selects it —
      the fork choice's winner after the block is stored must be the block itself.  This fails
      exactly when the current winner is not the best block the proposer built on (open finding
      F32, C13:valid-best-not-selected: a stored block with an unspendable input stays the fork
      choice's winner, the best block lags behind, and every `ProcessBlock` returns the
      reorganisation error);
    * `hnb` … `hprop`: the block is stored under its id as a child of the old best block. -/
theorem proposed_block_valid (s : NodePool.State) (b : Header) (cb : Ledger.Tx) (nb ob : Header)
    (hcb : cb.ins = []) (hfresh : ∀ o ∈ cb.outs, o.id ∉ (proposedTxs s).flatMap (·.ins))
    (htxs : s.base.txsOf b.id = cb :: proposedTxs s)
    (hvalid : s.base.validBlock b = true)
    (hpool : ∀ x, x ∈ s.base.node.orphans → ∀ n, s.base.validIn n x = true)
    (hok : (s.base.node.processBlock b).2 = .ok) (hbest : (s.base.node.processBlock b).1.best = b.id)
    (hnew : b.id ≠ s.base.node.best)
    (hnb : (s.base.node.processBlock b).1.header b.id = some nb)
    (hob : (s.base.node.processBlock b).1.header s.base.node.best = some ob)
    (hpar : nb.parent = s.base.node.best) (hid : nb.id = b.id) (hobid : ob.id = s.base.node.best)
    (hheight : nb.height = ob.height + 1) (hprop : nb.height = proposeHeight s) :
    (s.propose.2.processBlock b).2 = .ok ∧ (s.propose.2.processBlock b).1.base.node.best = b.id := by
  have h := base_accepts s b cb nb ob hcb hfresh htxs hvalid hpool hok hbest hnew hnb hob hpar hid hobid hheight hprop
  unfold NodePool.State.processBlock
  rw [step_res, BytomModel.Lemmas.NodePoolInv.step_base, BytomModel.Lemmas.NodePoolInv.propose_base]
  exact h

/-! #### the header part of `ValidateBlock` for a block in the signer's slot -/

/-- timestamp of the parent block (0 when no meta data is recorded) -/
def parentTs (s : NodeLedger.State) (p : Header) : Nat := match s.metaOf p.id with | some pm => pm.ts | none => 0

/-- the validator order `GetValidator(timestamp)` schedules for the block's timestamp: slots of
    `interval` ms, starting one interval after the previous checkpoint's timestamp, round robin -/
def slotOrder (s : NodeLedger.State) (b : Header) (ts : Nat) : Nat :=
  let ckTs := match s.node.prevCheckpointHash s.node.fuel b.parent with
    | some ch => (match s.metaOf ch with | some cm => cm.ts | none => 0)
    | none => 0
  ((ts - (ckTs + s.interval)) / s.interval) % s.node.cfg.nVal

/-- `ValidateBlock` passes for a block of the next height whose timestamp is at least one
    interval after its parent's and not in the future, signed by the validator its timestamp's
    slot belongs to, and whose context-free part (transactions, coinbase amounts, merkle root) is
    in order -/
theorem validBlock_of_slot (s : NodeLedger.State) (b p : Header) (m : Meta)
    (hm : s.metaOf b.id = some m) (hp : s.node.header b.parent = some p)
    (hh : b.height = p.height + 1) (hts : parentTs s p + s.interval ≤ m.ts) (hfut : m.future = false)
    (hsig : m.signer = some (slotOrder s b m.ts)) (hbad : m.bad = false) : s.validBlock b = true := by
  unfold NodeLedger.State.validBlock
  simp only [hm, hp]
  have h1 : (b.height != p.height + 1) = false := by simp [hh]
  have h2 : ¬ m.ts < parentTs s p + s.interval := by omega
  unfold parentTs at h2
  unfold slotOrder at hsig
  simp only [h1, Bool.false_eq_true, if_false, hfut, hsig, hbad, Bool.not_false]
  unfold parentTs at hts
  simp
  exact ⟨hts, rfl⟩

/-- the coinbase part of the context-free flag: the coinbase outputs `createCoinbaseTx` builds
    pass `checkCoinbaseAmount`, for every reward table, also in the first block of an epoch
    (C14 `proposer_matches_validator`, re-exported for the assembly) -/
theorem proposer_coinbase_passes (p : BytomModel.Model.Checkpoint.Params)
    (iter : BytomModel.Model.Checkpoint.KMap → BytomModel.Model.Checkpoint.KMap)
    (hi : BytomModel.Props.C14.IsIter iter) (height : Nat) (script : BytomModel.Model.Checkpoint.Key)
    (rewards : BytomModel.Model.Checkpoint.KMap) (he : p.epoch ≠ 0)
    (hn : (BytomModel.Lemmas.Checkpoint.kkeys rewards).Nodup)
    (hv : ∀ e ∈ rewards, e.2 ≠ 0 ∧ e.2 < BytomModel.Model.Checkpoint.u64)
    (h1 : height = 1 → height % p.epoch = 1 → rewards = []) :
    ∃ outs, BytomModel.Model.Checkpoint.createCoinbaseOutputs p iter height script rewards = some outs ∧
      BytomModel.Model.Checkpoint.checkCoinbaseAmount p height true outs rewards = .ok () :=
  BytomModel.Props.C14.proposer_matches_validator p iter hi height script rewards he hn hv h1

/-! #### non-vacuity: a pool with a conflict, a chain and a transaction whose refusal leaves a mark -/

open BytomModel.Lemmas.NodePoolInv (Ev run)

def exG : Header := { id := 0, parent := 4294967295, height := 0, slot := 0, rank := 0, sup := [] }
def exB1 : Header := { id := 1, parent := 0, height := 1, slot := 1, rank := 5, sup := [] }
def exCb0 : Ledger.Tx := { id := 1000, ins := [], outs := [{ id := 100, kind := .normal, amount := 50 }, { id := 101, kind := .normal, amount := 50 }] }
def exCb1 : Ledger.Tx := { id := 1001, ins := [], outs := [{ id := 110, kind := .normal, amount := 0 }] }
def exTA : Ledger.Tx := { id := 10, ins := [100], outs := [{ id := 200, kind := .normal, amount := 45 }] }
def exTB : Ledger.Tx := { id := 11, ins := [200], outs := [{ id := 201, kind := .normal, amount := 40 }] }
def exTC : Ledger.Tx := { id := 12, ins := [100], outs := [{ id := 210, kind := .normal, amount := 44 }] }
def exTD : Ledger.Tx := { id := 13, ins := [101, 100], outs := [{ id := 220, kind := .normal, amount := 90 }] }
def exTE : Ledger.Tx := { id := 14, ins := [101], outs := [{ id := 230, kind := .normal, amount := 45 }] }

def exS0 : NodePool.State :=
  { base := NodeLedger.State.init { epoch := 4, nVal := 1, me := none } { coinbasePending := 0 } exG [exCb0],
    pool := TxPool.Pool.empty, txdefs := [], now := 0 }

/-- tA, its conflict tC, its child tB, tD (spends o101 then the already spent o100: refused, the
    mark on o101 stays) and tE (spends o101: refused because of that mark) are pooled; the block
    b1 = coinbase, tA, tB is named -/
def exS : NodePool.State :=
  run exS0 [.submit exTA, .submit exTC, .submit exTB, .submit exTD, .submit exTE, .define exB1 [exCb1, exTA, exTB] none]

example : BytomModel.Lemmas.NodePoolInv.poolIds exS = [10, 12, 11, 13, 14] := by decide
example : exS.propose.1 = [10, 11] := by decide
example : BytomModel.Lemmas.NodePoolInv.poolIds exS.propose.2 = [10, 11] := by decide

/-- (2) on the example: tC (conflict of tA), tD and tE are refused and removed; tB (child of tA)
    is included with its parent; o100 is spent by exactly one included transaction -/
example : (poolIds exS).Nodup ∧ (exS.txById 12).isSome ∧ 12 ∉ exS.propose.1 := by decide
example : ∀ t ∈ poolTxs exS, (100 : Nat) ∉ t.outs.map (·.id) := by decide
example : vget exS.base.utxo 200 = none ∧ exTB ∈ proposedTxs exS := by decide

/-- all hypotheses of `proposed_block_valid` (and so of `propose_applies`,
    `proposed_block_attaches`) hold for `exS` and `exB1` -/
example : (exS.propose.2.processBlock exB1).2 = .ok ∧ (exS.propose.2.processBlock exB1).1.base.node.best = exB1.id :=
  proposed_block_valid exS exB1 exCb1 exB1 exG rfl (by decide) (by decide) (by decide)
    (fun x hx => by
      have h : exS.base.node.orphans.isEmpty = true := by decide
      rw [List.isEmpty_iff] at h; rw [h] at hx; cases hx)
    (by decide) (by decide)
    (by decide) rfl rfl rfl rfl rfl rfl (by decide)

/-- `validBlock_of_slot` on a state with recorded meta data: validator 1 of 2 signs in its slot -/
def exM : NodeLedger.State :=
  { exS0.base with node := { exS0.base.node with cfg := { epoch := 4, nVal := 2, me := some 1 } },
                   interval := 1000,
                   metas := [(1, { ts := 4000, signer := some 1, future := false, bad := false }),
                             (0, { ts := 0, signer := none, future := false, bad := false })] }

example : exM.validBlock exB1 = true :=
  validBlock_of_slot exM exB1 exG { ts := 4000, signer := some 1, future := false, bad := false }
    rfl rfl rfl (by decide) rfl (by decide) rfl

example : ∃ outs, BytomModel.Model.Checkpoint.createCoinbaseOutputs ⟨6000, 100, 3, 10, []⟩ id 7 [1] [([1], 5), ([2], 9)] = some outs ∧
    BytomModel.Model.Checkpoint.checkCoinbaseAmount ⟨6000, 100, 3, 10, []⟩ 7 true outs [([1], 5), ([2], 9)] = .ok () :=
  proposer_coinbase_passes _ id (fun m => List.Perm.refl m) 7 [1] _ (by decide) (by decide) (by decide) (by decide)

end BytomModel.Props.C38
