/-
C38 — blocks proposed by the node pass the node's own validation.

Model: `Model/NodePool.State.propose` = the proposer's selection loop
(`proposal.blockBuilder.applyTransactionFromPool` / `preValidateTxs`): the pool in arrival order,
each transaction loaded into ONE running utxo view (`GetTransactionsUtxo`, on demand) and applied
at height best+1 (`ApplyTransaction`, whose spend loop leaves its marks behind when it fails); a
refused transaction is removed from the pool.  The block is then attached by `reorganizeChain`
(`NodeLedger.ledgerReorg`): a fresh view, the inputs of ALL block transactions loaded first, the
coinbase applied first.

(1) `propose_applies` / `proposed_block_attaches`: the included transactions, applied in order
    after the coinbase on the persisted view, all succeed — the two views are related by `Rel`
    (equal on the inputs of the included transactions up to spent-marks left by refused ones).
(2) `propose_removes_refused`, `included_stay_pooled`, `conflict_later_refused`,
    `child_needs_parent`: what the loop does with refused / conflicting / chained transactions.
(3) `proposed_block_valid`: `processBlock` of the proposed block answers ok and makes it best,
    under the hypotheses spelled out there; `proposer_coinbase_passes` (C14) discharges the
    coinbase-amount part of the context-free validity flag, `validBlock_of_slot` the header part.
Not modelled (assumed, see notes): consensus validation of the pool transactions themselves
(C01/C13), the gas budget, the soft limit of 1024 transactions and the proposer's timeouts,
the merkle root, the block signature as bytes.
-/
import BytomModel.Lemmas.Proposer
import BytomModel.Lemmas.NodePoolInv
import BytomModel.Props.C14

namespace BytomModel.Props.C38
open BytomModel.Node BytomModel.Ledger BytomModel.NodeLedger BytomModel.NodePool
open BytomModel.Lemmas.PoolView BytomModel.Lemmas.Proposer

/-! ### (1) the proposed transactions apply -/

/-- pool transactions in arrival order -/
def poolTxs (s : NodePool.State) : List Ledger.Tx := (s.pool.pool.map (·.1)).filterMap s.txById

/-- the transactions the proposer puts into its block (after the coinbase), in order -/
def proposedTxs (s : NodePool.State) : List Ledger.Tx := s.propose.1.filterMap s.txById

/-- the model's fold is the function-level selection loop started on the persisted view -/
theorem proposedTxs_eq (s : NodePool.State) :
    proposedTxs s = (selF s.base.params (proposeHeight s) (poolTxs s) (vget s.base.utxo)).1 := by
  unfold proposedTxs poolTxs
  rw [propose_eq]
  simp only
  rw [propose_fold_spec]
  simp only [List.filterMap_nil, List.nil_append, vget_nil, eff_empty]

/-- **C38 (1).** The block the proposer builds passes the ledger part of its own attachment:
    `UtxoViewpoint.ApplyBlock` at height best+1 on a fresh view into which the inputs of all block
    transactions were loaded from the persisted set succeeds for `coinbase :: included`.
    Hypotheses: the coinbase spends nothing, and its output ids are new (no pool transaction
    spends them). -/
theorem propose_applies (s : NodePool.State) (cb : Ledger.Tx) (hcb : cb.ins = [])
    (hfresh : ∀ o ∈ cb.outs, o.id ∉ (proposedTxs s).flatMap (·.ins)) :
    (applyBlockTxs s.base.params (proposeHeight s) true (cb :: proposedTxs s)
      (loadSpent s.base.utxo (cb :: proposedTxs s) [])).isSome = true := by
  rw [applyBlockTxs_F, loadSpent_F, vget_nil]
  unfold attachF
  simp only [hcb, spendF, Bool.true_and, List.flatMap_cons, List.nil_append]
  rw [proposedTxs_eq] at hfresh ⊢
  apply attach_of_selF _ _ ((selF s.base.params (proposeHeight s) (poolTxs s) (vget s.base.utxo)).1.flatMap (·.ins))
  · intro t ht o ho
    exact List.mem_flatMap.mpr ⟨t, ht, ho⟩
  · intro o ho
    left
    rw [outF_other _ _ _ _ _ (fun hm => by
      obtain ⟨x, hx, hxo⟩ := List.mem_map.mp hm
      exact hfresh x hx (hxo ▸ ho))]
    unfold loadF
    simp only [ho, if_true]

/-- the ledger part of `reorganizeChain` for the single attached block succeeds -/
theorem proposed_block_attaches (s : NodePool.State) (hb : Header) (cb : Ledger.Tx) (hcb : cb.ins = [])
    (hfresh : ∀ o ∈ cb.outs, o.id ∉ (proposedTxs s).flatMap (·.ins))
    (htxs : s.base.txsOf hb.id = cb :: proposedTxs s) (hh : hb.height = proposeHeight s) :
    (s.base.ledgerReorg [hb] []).isSome = true := by
  have h1 := propose_applies s cb hcb hfresh
  unfold NodeLedger.State.ledgerReorg
  simp only [List.foldl_nil, List.foldl_cons, htxs, hh]
  cases hq : applyBlockTxs s.base.params (proposeHeight s) true (cb :: proposedTxs s)
      (loadSpent s.base.utxo (cb :: proposedTxs s) []) with
  | none => rw [hq] at h1; cases h1
  | some v => rfl

end BytomModel.Props.C38
