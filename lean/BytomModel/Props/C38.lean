import BytomModel.Model.NodePool
namespace BytomModel.Props.C38
theorem placeholder : True := trivial
end BytomModel.Props.C38
