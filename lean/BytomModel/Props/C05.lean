/-
C05 — Decoding untrusted bytes never crashes and uses bounded memory.

The decoders are those of `Model/Codec.lean` (the ones C04's round-trip theorems are about):
`Res.out` is `ok | err | panic`, `Res.alloc` counts the bytes the Go decoder requests through
`make`/`new`/`append`, also on failing paths.

On the unchanged tree the property is false in three places (each reproduced on the real code
by the harness): F2 `mapInputs` panics on an input whose asset version is not 1, F3
`SupLinks.readFrom` preallocates a slice of attacker-chosen length, F4 `decodeMessage` indexes
an empty message. The full statements are refuted with those witnesses; the partial theorems
exclude exactly these classes.
-/
import BytomModel.Lemmas.CodecAlloc

namespace BytomModel.Props.C05
open BytomModel.Codec BytomModel.Lemmas.Codec

/-! ### no panic -/

/-- `TxData.UnmarshalText` never panics, for every hash function and every text -/
theorem txData_decode_nopanic (H : Bytes → Bytes) (text : Bytes) : (txDataFromText H text).out ≠ .panic :=
  NoPanic.fromText (NoPanic.bind (NoPanic.decTx H) fun tx => NoPanic.noTrailing tx) text

/-- `BlockHeader.UnmarshalText` never panics -/
theorem header_decode_nopanic (text : Bytes) : (headerFromText text).out ≠ .panic :=
  NoPanic.fromText (NoPanic.bind NoPanic.decHeader fun _ => NoPanic.ite (NoPanic.fail _) (NoPanic.pure _)) text

/-- raw binary decoders (what storage and the block decoder use) never panic either -/
theorem decTx_nopanic (H : Bytes → Bytes) (bs : Bytes) : (decTx H bs).out ≠ .panic := NoPanic.decTx H bs
theorem decHeader_nopanic (bs : Bytes) : (decHeader bs).out ≠ .panic := NoPanic.decHeader bs

/-- `MapTx` is the only source of a panic in `Tx.UnmarshalText`: it panics exactly when the
    text decodes (as `TxData`, without trailing bytes) to a transaction with an untyped input -/
theorem tx_decode_panic_iff (H : Bytes → Bytes) (text : Bytes) :
    (txFromText H text).out = .panic ↔
      ∃ tx, (txDataFromText H text).out = .ok tx [] ∧ ∃ i ∈ tx.inputs, i.typed = none := by
  unfold txFromText txDataFromText fromText
  cases hexDecode text with
  | none => simp
  | some bs =>
    simp only
    cases hd : (decTx H bs).out with
    | err e => rw [bind_err hd, bind_err hd]; simp
    | panic => exact absurd hd (NoPanic.decTx H bs)
    | ok tx r =>
      rw [bind_ok hd, bind_ok hd]
      by_cases hr : r.length > 0
      · have h1 : (noTrailing tx r).out = .err .trailing := by unfold noTrailing; rw [if_pos hr]
        rw [bind_err h1, h1]; simp
      · have hr0 : r = [] := by
          cases r with
          | nil => rfl
          | cons a l => simp at hr
        subst hr0
        have h1 : (noTrailing tx []).out = .ok tx [] := rfl
        rw [bind_ok h1, h1]
        by_cases hp : mapTxPanics tx = true
        · have h2 : (mapTxD tx []).out = .panic := by unfold mapTxD; rw [if_pos hp]; rfl
          rw [bind_panic h2]
          simp only [true_iff]
          refine ⟨tx, rfl, ?_⟩
          unfold mapTxPanics at hp
          rw [List.any_eq_true] at hp
          obtain ⟨i, hi, hn⟩ := hp
          exact ⟨i, hi, by simpa using hn⟩
        · have h2 : (mapTxD tx []).out = .ok () [] := by unfold mapTxD; rw [if_neg hp]; rfl
          rw [bind_ok h2]
          simp only [pure_out, Out.ok.injEq, and_true, exists_eq_left', false_iff, reduceCtorEq]
          rintro ⟨i, hi, hn⟩
          apply hp
          unfold mapTxPanics
          rw [List.any_eq_true]
          exact ⟨i, hi, by simp [hn]⟩

/-- an input decodes without a typed input exactly when its asset version is not 1 — so the
    excluded class of `tx_decode_panic_iff` is "some input has an asset version other than 1" -/
theorem decoded_input_untyped_iff (H : Bytes → Bytes) {bs : Bytes} {i : TxInput} {r : Bytes}
    (h : (decInput H bs).out = .ok i r) : i.typed = none ↔ i.assetVersion ≠ 1 :=
  decInput_typed_none_iff H h

/-- partial no-panic theorem for `Tx.UnmarshalText` -/
theorem tx_decode_nopanic_partial (H : Bytes → Bytes) (text : Bytes)
    (hav : ∀ tx, (txDataFromText H text).out = .ok tx [] → ∀ i ∈ tx.inputs, i.typed ≠ none) :
    (txFromText H text).out ≠ .panic := by
  intro h
  obtain ⟨tx, htx, i, hi, hn⟩ := (tx_decode_panic_iff H text).mp h
  exact hav tx htx i hi hn

/-- in `Block.UnmarshalText` the mapping step `NewTx → MapTx` is the only source of a panic:
    with any mapping step that does not panic the block decoder does not panic -/
theorem block_decode_panic_only_from_mapTx (mp : TxData → Dec Unit) (hmp : ∀ tx bs, (mp tx bs).out ≠ .panic)
    (H : Bytes → Bytes) (text : Bytes) : (blockFromTextWith mp H text).out ≠ .panic :=
  NoPanic.fromText (NoPanic.bind (NoPanic.decBlockWith hmp H) fun b => NoPanic.noTrailing b) text

/-- … and `MapTx` panics exactly on a transaction with an untyped input -/
theorem mapTx_panic_iff (tx : TxData) (bs : Bytes) : (mapTxD tx bs).out = .panic ↔ ∃ i ∈ tx.inputs, i.typed = none := by
  unfold mapTxD mapTxPanics
  by_cases hp : (tx.inputs.any fun i => i.typed.isNone) = true
  · rw [if_pos hp]
    rw [List.any_eq_true] at hp
    obtain ⟨i, hi, hn⟩ := hp
    exact ⟨fun _ => ⟨i, hi, by simpa using hn⟩, fun _ => rfl⟩
  · rw [if_neg hp]
    constructor
    · intro h; cases h
    · rintro ⟨i, hi, hn⟩
      exact absurd (List.any_eq_true.mpr ⟨i, hi, by simp [hn]⟩) hp

/-- the property's first half at full strength, for the transaction text decoder -/
def decode_nopanic_full : Prop := ∀ (H : Bytes → Bytes) (text : Bytes), (txFromText H text).out ≠ .panic

def H0 : Bytes → Bytes := fun _ => zeroHash

/-- F2: the text `0701000102000000` (serflags 7, version 1, time range 0, one input with asset
    version 2 and empty commitment / witness strings, no outputs) -/
def witnessF2 : Bytes := [48,55,48,49,48,48,48,49,48,50,48,48,48,48,48,48]

theorem decode_nopanic_full_refuted : ¬ decode_nopanic_full := by
  intro h
  exact h H0 witnessF2 (by decide)

/-- the same text through the block decoder (a block with that one transaction) panics too -/
def witnessF2Block : Bytes := [48,50,48,49] ++ witnessF2

theorem block_decode_panics_on_witness : (blockFromText H0 witnessF2Block).out = .panic := by decide

/-! ### network messages -/

/-- `decodeMessage` at full strength: no panic for any message and any (non-panicking) wire decoder -/
def decodeMessage_nopanic_full : Prop :=
  ∀ (wire : Dec Unit), NoPanic wire → ∀ bz, (decodeMessage wire bz).out ≠ .panic

/-- F4: the empty message -/
theorem decodeMessage_nopanic_full_refuted : ¬ decodeMessage_nopanic_full := by
  intro h
  exact h (fun _ => ⟨0, .err .eof⟩) (by intro bs hh; cases hh) [] rfl

theorem decodeMessage_panic_iff {α} (wire : Dec α) (hw : NoPanic wire) (bz : Bytes) :
    (decodeMessage wire bz).out = .panic ↔ bz = [] := by
  cases bz with
  | nil => simp [decodeMessage]
  | cons b r =>
    simp only [decodeMessage, reduceCtorEq, iff_false]
    exact hw (b :: r)

/-- partial: every non-empty message is handled without a panic (given go-wire does not panic) -/
theorem decodeMessage_nopanic_partial {α} (wire : Dec α) (hw : NoPanic wire) (bz : Bytes) (h : bz ≠ []) :
    (decodeMessage wire bz).out ≠ .panic := fun hp => h ((decodeMessage_panic_iff wire hw bz).mp hp)

/-! ### allocation -/

/-- `TxData.readFrom` on raw bytes: at most 360 charged bytes per input byte plus 200, on
    every path (success, error) and for every input -/
theorem decTx_alloc_linear (H : Bytes → Bytes) (bs : Bytes) : (decTx H bs).alloc ≤ 360 * bs.length + 200 :=
  (decTx_lin H bs).1

/-- on success the charge is bounded by the bytes actually consumed -/
theorem decTx_alloc_consumed (H : Bytes → Bytes) (bs : Bytes) (tx : TxData) (r : Bytes) (h : (decTx H bs).out = .ok tx r) :
    ∃ d, bs.length = r.length + d ∧ (decTx H bs).alloc ≤ 360 * d :=
  (decTx_lin H bs).2 tx r h

/-- `TxData.UnmarshalText`: hex buffer + decoder, linear in the text length
    (`alloc ≤ 180.5·len + 200`) -/
theorem txData_decode_alloc_linear (H : Bytes → Bytes) (text : Bytes) :
    2 * (txDataFromText H text).alloc ≤ 361 * text.length + 400 :=
  fromText_alloc (Lin.bind (decTx_lin H) fun tx => noTrailing_lin 360 200 tx) text

/-- `Tx.UnmarshalText` (the network / RPC entry point) including the entries `MapTx`
    allocates: linear in the text length (`alloc ≤ 692.5·len + 1224`) -/
theorem tx_decode_alloc_linear (H : Bytes → Bytes) (text : Bytes) :
    2 * (txFromText H text).alloc ≤ 1385 * text.length + 2448 := by
  unfold txFromText fromText
  cases hx : hexDecode text with
  | none =>
    simp only
    have : text.length / 2 * 2 ≤ text.length := Nat.div_mul_le_self _ _
    omega
  | some bs =>
    simp only
    have hl := hexDecode_length text bs hx
    have h1 := txMapped_alloc H bs
    have : text.length / 2 * 2 ≤ text.length := Nat.div_mul_le_self _ _
    unfold aEntry at h1
    omega

/-- "memory at most proportional to the input length", with the constants the harness checks on
    the real decoders (640 bytes per input byte + 64 KiB) -/
def alloc_linear_full : Prop := ∀ text : Bytes, (headerFromText text).alloc ≤ 640 * text.length + 65536

/-- F3: a 154-character header text whose suplinks string declares 2^31-1 entries -/
def witnessF3 : Bytes :=
  hexEncode ([1, 0, 0] ++ zeroHash ++ [0, 32] ++ zeroHash ++ [1, 0] ++ [5, 0xff, 0xff, 0xff, 0xff, 0x07])

theorem witnessF3_length : witnessF3.length = 154 := by decide +kernel

/-- the model charges `8 * (2^31-1)` bytes for the `make([]*SupLink, size)` of this text -/
theorem witnessF3_alloc : (headerFromText witnessF3).alloc ≥ 8 * 2147483647 := by decide +kernel

theorem alloc_linear_full_refuted : ¬ alloc_linear_full := by
  intro h
  have h1 := h witnessF3
  have h2 := witnessF3_alloc
  rw [witnessF3_length] at h1
  omega

end BytomModel.Props.C05
