/-
C05 — Decoding untrusted bytes never crashes and uses bounded memory.

The decoders are those of `Model/Codec.lean` (the ones C04's round-trip theorems are about):
`Res.out` is `ok | err | panic`, `Res.alloc` counts the bytes the Go decoder requests through
`make`/`new`/`append`, also on failing paths.

History: on the tree as first read the property failed in three places — F2 (`mapInputs`
panicked on an input whose asset version is not 1), F3 (`SupLinks.readFrom` preallocated a slice
of attacker-chosen length), F4 (`decodeMessage` indexed an empty message) — and this file held
the refutations. Since /repo commits c7687229, 4b90f0df and 414d73e5 the decoder rejects such
inputs / grows by append / checks the length; the model mirrors that and the property is now
PROVED at full strength: no decoder panics on any input, and every decoder's allocation is
linear in the input length. The former witnesses are `example`s that satisfy the property.
-/
import BytomModel.Lemmas.CodecAlloc
import BytomModel.Model.Entry

namespace BytomModel.Props.C05
open BytomModel.Codec BytomModel.Lemmas.Codec

/-! ### no panic — every decoder, every input -/

/-- `Tx.UnmarshalText` (hex, `TxData.readFrom`, trailing check, `MapTx`) never panics -/
theorem tx_decode_nopanic (H : Bytes → Bytes) (text : Bytes) : (txFromText H text).out ≠ .panic :=
  NoPanic.fromText (NoPanic.txMapped H) text

/-- `TxData.UnmarshalText` never panics -/
theorem txData_decode_nopanic (H : Bytes → Bytes) (text : Bytes) : (txDataFromText H text).out ≠ .panic :=
  NoPanic.fromText (NoPanic.bind (NoPanic.decTx H) fun tx => NoPanic.noTrailing tx) text

/-- `BlockHeader.UnmarshalText` never panics -/
theorem header_decode_nopanic (text : Bytes) : (headerFromText text).out ≠ .panic :=
  NoPanic.fromText (NoPanic.bind NoPanic.decHeader fun _ => NoPanic.ite (NoPanic.fail _) (NoPanic.pure _)) text

/-- `Block.UnmarshalText` (which maps every transaction with `NewTx`) never panics -/
theorem block_decode_nopanic (H : Bytes → Bytes) (text : Bytes) : (blockFromText H text).out ≠ .panic :=
  NoPanic.fromText (NoPanic.bind (NoPanic.decBlock H) fun b => NoPanic.noTrailing b) text

/-- the raw binary decoders (storage, block decoder) never panic either -/
theorem decTx_nopanic (H : Bytes → Bytes) (bs : Bytes) : (decTx H bs).out ≠ .panic := NoPanic.decTx H bs
theorem decHeader_nopanic (bs : Bytes) : (decHeader bs).out ≠ .panic := NoPanic.decHeader bs
theorem decBlock_nopanic (H : Bytes → Bytes) (bs : Bytes) : (decBlock H bs).out ≠ .panic := NoPanic.decBlock H bs

/-- the property's first half at full strength for the ledger decoders -/
theorem decode_nopanic_full (H : Bytes → Bytes) (text : Bytes) :
    (txFromText H text).out ≠ .panic ∧ (txDataFromText H text).out ≠ .panic ∧
    (headerFromText text).out ≠ .panic ∧ (blockFromText H text).out ≠ .panic :=
  ⟨tx_decode_nopanic H text, txData_decode_nopanic H text, header_decode_nopanic text, block_decode_nopanic H text⟩

/-- why `MapTx` cannot panic on a decoded transaction: every decoded input is typed and has
    asset version 1 … -/
theorem decoded_input_typed (H : Bytes → Bytes) {bs : Bytes} {i : TxInput} {r : Bytes}
    (h : (decInput H bs).out = .ok i r) : i.typed.isSome = true ∧ i.assetVersion = 1 :=
  decInput_typed H h

theorem decoded_tx_all_typed (H : Bytes → Bytes) {bs : Bytes} {tx : TxData} {r : Bytes}
    (h : (decTx H bs).out = .ok tx r) : ∀ i ∈ tx.inputs, i.typed.isSome = true ∧ i.assetVersion = 1 :=
  decTx_allTyped H h

/-- … while `MapTx` still panics exactly on an untyped input (the `default:` branch of
    `mapInputs` is still in the code; it is unreachable from the decoders) -/
theorem mapTx_panic_iff (tx : TxData) (bs : Bytes) : (mapTxD tx bs).out = .panic ↔ ∃ i ∈ tx.inputs, i.typed = none := by
  unfold mapTxD mapTxPanics
  by_cases hp : (tx.inputs.any fun i => i.typed.isNone) = true
  · rw [if_pos hp]
    rw [List.any_eq_true] at hp
    obtain ⟨i, hi, hn⟩ := hp
    exact ⟨fun _ => ⟨i, hi, by simpa using hn⟩, fun _ => rfl⟩
  · rw [if_neg hp]
    constructor
    · intro h; cases h
    · rintro ⟨i, hi, hn⟩
      exact absurd (List.any_eq_true.mpr ⟨i, hi, by simp [hn]⟩) hp

theorem typedInputs_isSome : ∀ l : List TxInput, (∀ i ∈ l, i.typed.isSome = true) → (Entry.typedInputs l).isSome = true := by
  intro l
  induction l with
  | nil => intro _; rfl
  | cons i r ih =>
    intro h
    have h1 := h i (by simp)
    have h2 := ih (fun j hj => h j (by simp [hj]))
    simp only [Entry.typedInputs]
    cases hi : i.typed with
    | none => rw [hi] at h1; simp at h1
    | some t =>
      cases hr : Entry.typedInputs r with
      | none => rw [hr] at h2; simp at h2
      | some l => rfl

/-- totality of `MapTx` (the entry model of C03) on every decoded transaction -/
theorem mapTx_total_on_decoded (H : Bytes → Bytes) {bs : Bytes} {tx : TxData} {r : Bytes}
    (h : (decTx H bs).out = .ok tx r) : (Entry.mapTx H tx).isSome = true := by
  unfold Entry.mapTx
  have := typedInputs_isSome tx.inputs (fun i hi => (decTx_allTyped H h i hi).1)
  cases ht : Entry.typedInputs tx.inputs with
  | none => rw [ht] at this; simp at this
  | some ts => rfl

def H0 : Bytes → Bytes := fun _ => zeroHash

/-- former F2 witness `0701000102000000` (one input with asset version 2): now a decode error -/
def witnessF2 : Bytes := [48,55,48,49,48,48,48,49,48,50,48,48,48,48,48,48]
example : (txFromText H0 witnessF2).out = .err .assetVersion := by decide
/-- the same transaction inside a block -/
example : (blockFromText H0 ([48,50,48,49] ++ witnessF2)).out = .err .assetVersion := by decide

/-! ### network messages -/

/-- `decodeMessage` of both reactors never panics, for any message and any (non-panicking)
    wire decoder -/
theorem decodeMessage_nopanic_full {α} (wire : Dec α) (hw : NoPanic wire) (bz : Bytes) :
    (decodeMessage wire bz).out ≠ .panic := by
  cases bz with
  | nil => intro h; cases h
  | cons b r => exact hw (b :: r)

/-- former F4 witness: the empty message is an error -/
theorem decodeMessage_empty {α} (wire : Dec α) : (decodeMessage wire []).out = .err .emptyMessage := rfl

example : NoPanic (fun _ => (⟨0, .err .eof⟩ : Res Unit)) := by intro bs h; cases h

/-! ### allocation — linear in the input length, every decoder, every path -/

/-- `TxData.readFrom` on raw bytes: at most 360 charged bytes per input byte plus 200 -/
theorem decTx_alloc_linear (H : Bytes → Bytes) (bs : Bytes) : (decTx H bs).alloc ≤ 360 * bs.length + 200 :=
  (decTx_lin H bs).1

/-- on success the charge is bounded by the bytes actually consumed -/
theorem decTx_alloc_consumed (H : Bytes → Bytes) (bs : Bytes) (tx : TxData) (r : Bytes) (h : (decTx H bs).out = .ok tx r) :
    ∃ d, bs.length = r.length + d ∧ (decTx H bs).alloc ≤ 360 * d :=
  (decTx_lin H bs).2 tx r h

/-- `BlockHeader.readFrom`: the suplink slice grows with the entries read, 296 bytes per ≥ 43
    bytes of input -/
theorem decHeader_alloc_linear (bs : Bytes) : (decHeader bs).alloc ≤ 296 * bs.length + 296 :=
  (decHeader_lin bs).1

/-- `Block.readFrom`, including `NewTx → MapTx` of every transaction -/
theorem decBlock_alloc_linear (H : Bytes → Bytes) (bs : Bytes) : (decBlock H bs).alloc ≤ 2544 * bs.length + 1360 :=
  (decBlock_lin H bs).1

/-- `TxData.UnmarshalText`: hex buffer + decoder (`alloc ≤ 180.5·len + 200`) -/
theorem txData_decode_alloc_linear (H : Bytes → Bytes) (text : Bytes) :
    2 * (txDataFromText H text).alloc ≤ 361 * text.length + 400 :=
  fromText_alloc (Lin.bind (decTx_lin H) fun tx => noTrailing_lin 360 200 tx) text

/-- `Tx.UnmarshalText` including the entries `MapTx` allocates (`alloc ≤ 692.5·len + 1224`) -/
theorem tx_decode_alloc_linear (H : Bytes → Bytes) (text : Bytes) :
    2 * (txFromText H text).alloc ≤ 1385 * text.length + 2448 := by
  unfold txFromText fromText
  cases hx : hexDecode text with
  | none =>
    simp only
    have : text.length / 2 * 2 ≤ text.length := Nat.div_mul_le_self _ _
    omega
  | some bs =>
    simp only
    have hl := hexDecode_length text bs hx
    have h1 := txMapped_alloc H bs
    have : text.length / 2 * 2 ≤ text.length := Nat.div_mul_le_self _ _
    unfold aEntry at h1
    omega

/-- `BlockHeader.UnmarshalText` (`alloc ≤ 148.5·len + 296`) -/
theorem header_decode_alloc_linear (text : Bytes) : 2 * (headerFromText text).alloc ≤ 297 * text.length + 592 :=
  fromText_alloc (Lin.bind decHeader_lin fun _ => Lin.ite (Lin.fail _ _ _) (Lin.pure _ _ _)) text

/-- `Block.UnmarshalText` (`alloc ≤ 1272.5·len + 1360`) -/
theorem block_decode_alloc_linear (H : Bytes → Bytes) (text : Bytes) :
    2 * (blockFromText H text).alloc ≤ 2545 * text.length + 2720 :=
  fromText_alloc (Lin.bind (decBlock_lin H) fun b => noTrailing_lin 2544 1360 b) text

/-- "memory at most proportional to the input length" with the constants the harness checks
    on the real header decoder (640 bytes per input byte + 64 KiB) -/
theorem alloc_linear_full (text : Bytes) : (headerFromText text).alloc ≤ 640 * text.length + 65536 := by
  have := header_decode_alloc_linear text
  omega

/-- former F3 witness: a 154-character header text whose suplinks string declares 2^31-1
    entries; the decoder now charges only the hex buffer and one suplink before it fails -/
def witnessF3 : Bytes :=
  hexEncode ([1, 0, 0] ++ zeroHash ++ [0, 32] ++ zeroHash ++ [1, 0] ++ [5, 0xff, 0xff, 0xff, 0xff, 0x07])

example : witnessF3.length = 154 := by decide +kernel
example : (headerFromText witnessF3).alloc ≤ 1024 := by decide +kernel
example : (headerFromText witnessF3).out = .err .eof := by decide +kernel

end BytomModel.Props.C05
