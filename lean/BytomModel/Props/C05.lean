import BytomModel.Model.Codec
namespace BytomModel.Props.C05
open BytomModel.Codec

theorem placeholder_true : True := trivial

end BytomModel.Props.C05
