/-
C11 — Best chain follows the fork-choice rule and indexes stay consistent.

All theorems are about the executable node model `BytomModel.Node` (`Model/Node.lean`), whose
output is compared line by line with the real `protocol.Chain` + `casper.Casper` +
`database.Store` on every run of `./check C11` (harness `node`, driver `drv_node`).

Vocabulary of parts 2–4 (defined in Lemmas/NodeChain, Lemmas/NodeReorg):
  `skel s`            id ↦ (parent, height) of the stored headers of state `s`;
  `Anc L a b`         `a` is an ancestor of `b` (reflexive) over stored, height-decreasing parent links;
  `StoreWF L gid`     genesis stored at height 0, every other stored header has its parent stored
                      one lower;
  `Up c hc l`         `l` is the ascending parent-linked chain that starts just above block `c`
                      (height `hc`); `tipId c l` is the id of its last block (`c` if `l = []`);
  `Univ`              the blocks that exist (id, parent, height) — ids are hashes, so one id never
                      names two different blocks, and a valid block is one higher than its parent;
  `WF U s`            the invariant;  `Event`, `run` — histories;  `inMain` — the driver's predicate.

Part 1 (fork choice).  `Tree.bestNode` (the model of `treeNode.bestNode`) against the
declarative rule: among ALL checkpoints of the tree, take the one whose key
  (height of the nearest justified checkpoint on the path from the root, height, rank of hash)
is largest in the lexicographic order — "highest justified checkpoint, then greatest height,
then largest hash".  `Tree.paths` / `jhOf` (Lemmas/NodeTree) are the declarative side.
-/
import BytomModel.Lemmas.NodeTree11
import BytomModel.Lemmas.NodeReorg

namespace BytomModel.Props.C11
open BytomModel.Node BytomModel.Lemmas.NodeTree BytomModel.Lemmas.NodeChain

/-! ### Part 1: the recursive search is the declarative fork-choice rule -/

/-- The key's first component is what the rule says: the height of the justified checkpoint
    nearest to the node on its path from the root, or the start value when there is none. -/
theorem jhOf_nearest_justified (jh : Nat) (p : List Ckpt) :
    jhOf jh p = match p.reverse.find? (fun c => c.status == .justified) with
      | some a => a.height
      | none => jh :=
  jhOf_eq_find jh p

/-- The nodes the paths end in are exactly the checkpoints of the tree. -/
theorem paths_cover_tree (t : Tree) (c : Ckpt) : c ∈ t.flatten ↔ ∃ p ∈ t.paths, p.getLast? = some c :=
  mem_flatten_iff t c

/-- `bestNode` returns a checkpoint of the tree together with ITS justified-height key. -/
theorem bestNode_mem (rankOf : Nat → Nat) (jh : Nat) (t : Tree) :
    ∃ p ∈ t.paths, p.getLast? = some (t.bestNode rankOf jh).1 ∧ jhOf jh p = (t.bestNode rankOf jh).2 := by
  obtain ⟨⟨p, hp, hk⟩, _⟩ := bestNode_spec rankOf t jh
  refine ⟨p, hp, ?_⟩
  simp only [endKey, Option.map_eq_some_iff] at hk
  obtain ⟨c, hc, hr⟩ := hk
  rw [← hr]; exact ⟨hc, rfl⟩

theorem bestNode_in_tree (rankOf : Nat → Nat) (jh : Nat) (t : Tree) : (t.bestNode rankOf jh).1 ∈ t.flatten := by
  obtain ⟨p, hp, hl, _⟩ := bestNode_mem rankOf jh t
  exact (mem_flatten_iff t _).mpr ⟨p, hp, hl⟩

/-- No checkpoint of the tree has a strictly better key than the one `bestNode` returns. -/
theorem bestNode_maximal (rankOf : Nat → Nat) (jh : Nat) (t : Tree) (p : List Ckpt) (hp : p ∈ t.paths)
    (c : Ckpt) (hc : p.getLast? = some c) :
    better (jhOf jh p) c.height (rankOf c.hash)
      (t.bestNode rankOf jh).2 (t.bestNode rankOf jh).1.height (rankOf (t.bestNode rankOf jh).1.hash) = false := by
  obtain ⟨_, hmax⟩ := bestNode_spec rankOf t jh
  exact hmax p hp (c, jhOf jh p) (by simp [endKey, hc])

/-- Uniqueness: when distinct hashes of the tree have distinct ranks (the rank stands for the
    hash's position in the string order), every maximal checkpoint is the one returned. -/
theorem bestNode_unique (rankOf : Nat → Nat) (jh : Nat) (t : Tree)
    (hinj : ∀ a ∈ t.flatten, ∀ b ∈ t.flatten, rankOf a.hash = rankOf b.hash → a.hash = b.hash)
    (p : List Ckpt) (hp : p ∈ t.paths) (c : Ckpt) (hc : p.getLast? = some c)
    (hmax : ∀ q ∈ t.paths, ∀ d, q.getLast? = some d →
      better (jhOf jh q) d.height (rankOf d.hash) (jhOf jh p) c.height (rankOf c.hash) = false) :
    c.hash = (t.bestNode rankOf jh).1.hash ∧ c.height = (t.bestNode rankOf jh).1.height ∧
      jhOf jh p = (t.bestNode rankOf jh).2 := by
  obtain ⟨q, hq, hql, hqj⟩ := bestNode_mem rankOf jh t
  have h1 := bestNode_maximal rankOf jh t p hp c hc
  have h2 := hmax q hq _ hql
  rw [hqj] at h2
  obtain ⟨hj, hh, hr⟩ := better_total h1 h2
  exact ⟨hinj c ((mem_flatten_iff t c).mpr ⟨p, hp, hc⟩) _ (bestNode_in_tree rankOf jh t) hr, hh, hj⟩

/-- `Casper.BestChain` of a node state is the fork choice over its checkpoint tree. -/
theorem bestChain_is_forkChoice (s : State) :
    (∃ p ∈ s.tree.paths, ∃ c, p.getLast? = some c ∧ c.hash = s.bestChain ∧
      ∀ q ∈ s.tree.paths, ∀ d, q.getLast? = some d →
        better (jhOf s.tree.ckpt.height q) d.height (s.rankOf d.hash)
               (jhOf s.tree.ckpt.height p) c.height (s.rankOf c.hash) = false) := by
  obtain ⟨p, hp, hl, hj⟩ := bestNode_mem s.rankOf s.tree.ckpt.height s.tree
  refine ⟨p, hp, _, hl, rfl, ?_⟩
  intro q hq d hd
  rw [hj]
  exact bestNode_maximal s.rankOf s.tree.ckpt.height s.tree q hq d hd

/-! non-vacuity (tests on a literal tree): root justified at 0 with two branches; the branch
    holding a justified checkpoint wins although the other is higher. -/
def exTree : Tree :=
  .node { hash := 0, height := 0, parentHash := 0, status := .justified, sup := [] }
    [ .node { hash := 1, height := 2, parentHash := 0, status := .unjustified, sup := [] }
        [ .node { hash := 3, height := 4, parentHash := 1, status := .growing, sup := [] } [] ],
      .node { hash := 2, height := 2, parentHash := 0, status := .justified, sup := [] } [] ]

example : (exTree.bestNode id 0).1.hash = 2 ∧ (exTree.bestNode id 0).2 = 2 := by decide
example : exTree.paths.length = 4 := by decide
example : ∀ a ∈ exTree.flatten, ∀ b ∈ exTree.flatten, id a.hash = id b.hash → a.hash = b.hash := by decide

/-! ### Part 2: `calcReorganizeChain` -/

/-- On well-formed headers, a successful `calcReorg nb ob` returns: `att` = the parent-linked
    chain (heights going up by one) from just above a stored block `c` to `nb`, `det` = tip
    first, i.e. reversed it is the chain from just above `c` to `ob`; every listed header is
    the stored one; no block is in both lists. -/
theorem calcReorg_spec {s : State} {gid : Nat} (w : StoreWF (skel s) gid) {nb ob : Header}
    (hn : s.header nb.id = some nb) (ho : s.header ob.id = some ob) {fuel : Nat} {att det : List Header}
    (h : s.calcReorg fuel nb ob [] [] = some (att, det)) :
    ∃ c, s.header c.id = some c ∧
      Up c.id c.height att ∧ tipId c.id att = nb.id ∧
      Up c.id c.height det.reverse ∧ tipId c.id det.reverse = ob.id ∧
      Stored s att ∧ Stored s det ∧ (∀ x ∈ att, ∀ y ∈ det, x.id ≠ y.id) :=
  BytomModel.Lemmas.NodeChain.calcReorg_spec w hn ho h

/-- ascending heights: the k-th attached header is `k + 1` above the fork point (same for the
    reversed detach list) -/
theorem calcReorg_heights {s : State} {gid : Nat} (w : StoreWF (skel s) gid) {nb ob : Header}
    (hn : s.header nb.id = some nb) (ho : s.header ob.id = some ob) {fuel : Nat} {att det : List Header}
    (h : s.calcReorg fuel nb ob [] [] = some (att, det)) :
    ∃ hc, att.map (fun x => x.height) = List.range' (hc + 1) att.length ∧
          det.reverse.map (fun x => x.height) = List.range' (hc + 1) det.length ∧
          (att ≠ [] → att.getLast? = some nb) ∧ (det ≠ [] → det.head? = some ob) := by
  obtain ⟨c, _, r1, r2, r3, r4, r5, r6, _⟩ := BytomModel.Lemmas.NodeChain.calcReorg_spec w hn ho h
  refine ⟨c.height, up_heights att c.id c.height r1, ?_, fun hne => up_last r5 hn r2 hne, fun hne => ?_⟩
  · have := up_heights det.reverse c.id c.height r3
    rwa [List.length_reverse] at this
  · have hst : Stored s det.reverse := fun y hy => r6 y (List.mem_reverse.mp hy)
    have := up_last hst ho r4 (by simpa using hne)
    rwa [List.getLast?_reverse] at this

/-- the fork point is the LOWEST common ancestor: it is an ancestor of both blocks, every common
    ancestor is an ancestor of it; attached blocks are ancestors of `nb` only, detached blocks
    of `ob` only. -/
theorem calcReorg_lowest_common_ancestor {s : State} {gid : Nat} (w : StoreWF (skel s) gid) {nb ob : Header}
    (hn : s.header nb.id = some nb) (ho : s.header ob.id = some ob) {fuel : Nat} {att det : List Header}
    (h : s.calcReorg fuel nb ob [] [] = some (att, det)) :
    ∃ c, Anc (skel s) c nb.id ∧ Anc (skel s) c ob.id ∧
      (∀ a, Anc (skel s) a nb.id → Anc (skel s) a ob.id → Anc (skel s) a c) ∧
      (∀ x ∈ att, Anc (skel s) x.id nb.id ∧ ¬ Anc (skel s) x.id ob.id) ∧
      (∀ y ∈ det, Anc (skel s) y.id ob.id ∧ ¬ Anc (skel s) y.id nb.id) :=
  calcReorg_lca w hn ho h

/-- termination: for two stored blocks of a well-formed store the walk ends within the fuel
    the model gives it (so the model's `none` only ever means "header missing") -/
theorem calcReorg_terminates {s : State} {gid : Nat} (w : StoreWF (skel s) gid) {nb ob : Header}
    (hn : s.header nb.id = some nb) (ho : s.header ob.id = some ob) :
    ∃ r, s.calcReorg (2 * s.fuel) nb ob [] [] = some r :=
  BytomModel.Lemmas.NodeChain.calcReorg_terminates w hn ho

/-! ### Part 3: the index invariant over all event sequences -/

theorem wf_init (U : Univ) (cfg : Config) (g : Header) (hg : g.height = 0) (hid : U.gid = g.id)
    (hm : U.mem g.id g.parent g.height) : WF U (State.init cfg g) :=
  init_wf U cfg g hg hid hm

/-- `processBlock` keeps the invariant for every block of the universe (a block whose id names
    one block only and whose height is its parent's + 1) — whatever it answers, including the
    orphan path, the recursive connection of waiting orphans and reorganisations. -/
theorem wf_processBlock {U : Univ} {s : State} (w : WF U s) (b : Header) (hb : U.mem b.id b.parent b.height) :
    WF U (s.processBlock b).1 :=
  processBlock_wf w b hb

theorem wf_authVerification {U : Univ} {s : State} (w : WF U s) (order src tgt : Nat) (sigOk : Bool) :
    WF U (s.authVerification order src tgt sigOk).1 :=
  authVerification_wf w order src tgt sigOk

theorem wf_restart {U : Univ} {s s' : State} (w : WF U s) (hr : s.restart = some s') : WF U s' :=
  restart_wf w hr

/-- every reachable state: any list of `def` / `deliver` / `vote` / `restart` events -/
theorem wf_run {U : Univ} (s : State) (evs : List Event) (w : WF U s) (hin : EventsIn U evs) : WF U (run s evs) :=
  run_wf evs s w hin

/-- the same from genesis, the universe being the delivered blocks themselves -/
theorem wf_reachable (cfg : Config) (g : Header) (evs : List Event) (hg : g.height = 0)
    (hc : Consistent g (delivered evs)) :
    WF (Univ.ofBlocks g (delivered evs) hc) (run (State.init cfg g) evs) :=
  run_wf_blocks cfg g evs hg hc

/-- Every height from genesis to the best block maps to the best block's ancestor at that height. -/
theorem index_consistent {U : Univ} {s : State} (w : WF U s) {bh : Header} (hb : s.header s.best = some bh)
    (k : Nat) (hk : k ≤ bh.height) :
    ∃ a ah, alistGet s.index k = some a ∧ s.header a = some ah ∧ ah.height = k ∧ Anc (skel s) a s.best :=
  w.index_consistent hb k hk

/-- A block is reported as on the main chain exactly when it is an ancestor of the best block
    (`h` is the block as the caller knows it; its height is the stored one). -/
theorem inMain_iff {U : Univ} {s : State} (w : WF U s) (h : Header)
    (hh : ∀ h', s.header h.id = some h' → h'.height = h.height) :
    inMain s h = true ↔ Anc (skel s) h.id s.best :=
  w.inMain_iff h hh

/-- both, for every state reachable from genesis -/
theorem reachable_index_and_inMain (cfg : Config) (g : Header) (evs : List Event) (hg : g.height = 0)
    (hc : Consistent g (delivered evs)) :
    let s := run (State.init cfg g) evs
    (∃ bh, s.header s.best = some bh ∧
      ∀ k, k ≤ bh.height → ∃ a ah, alistGet s.index k = some a ∧ s.header a = some ah ∧ ah.height = k ∧
        Anc (skel s) a s.best) ∧
    (∀ h : Header, (∀ h', s.header h.id = some h' → h'.height = h.height) →
      (inMain s h = true ↔ Anc (skel s) h.id s.best)) := by
  intro s
  have w := run_wf_blocks cfg g evs hg hc
  refine ⟨?_, fun h hh => w.inMain_iff h hh⟩
  obtain ⟨p, ht, hbs⟩ := w.bestStored
  obtain ⟨bh, hbh, _⟩ := skelOf_some hbs
  exact ⟨bh, hbh, fun k hk => w.index_consistent hbh k hk⟩

/-! ### Part 4: the best pointer follows the fork choice -/

/-- in a state satisfying the invariant, a reorganisation to any stored block succeeds -/
theorem tryReorganize_succeeds {U : Univ} {s : State} (w : WF U s) {x : Nat} {nb : Header} (hx : s.header x = some nb) :
    (s.tryReorganize x).2 = true ∧ (s.tryReorganize x).1.best = x :=
  BytomModel.Lemmas.NodeChain.tryReorganize_succeeds w hx

/-- A block arrival that is not answered with an error leaves the node on the fork choice of
    its checkpoint tree (= the declarative maximum, by `bestChain_is_forkChoice`). -/
theorem processBlock_follows_forkChoice (s : State) (b : Header) (hsync : s.best = s.bestChain)
    (hok : (s.processBlock b).2 ≠ .err) : (s.processBlock b).1.best = (s.processBlock b).1.bestChain :=
  processBlock_sync s b hsync hok

/-- A verification message answered `ok` leaves the node on the fork choice of the updated tree. -/
theorem authVerification_follows_forkChoice (s : State) (order src tgt : Nat) (sigOk : Bool)
    (hsync : s.best = s.bestChain) (hok : (s.authVerification order src tgt sigOk).2 = .ok) :
    (s.authVerification order src tgt sigOk).1.best = (s.authVerification order src tgt sigOk).1.bestChain :=
  authVerification_sync s order src tgt sigOk hsync hok

/-- Over whole histories: a node that is told any block definitions and then receives any
    sequence of blocks and votes, none answered with an error, ends on the fork choice of its
    checkpoint tree. -/
theorem run_follows_forkChoice (cfg : Config) (g : Header) (ds : List Header) (evs : List Event)
    (hok : AnswersOK (run (State.init cfg g) (ds.map Event.define)) evs) :
    (run (State.init cfg g) (ds.map Event.define ++ evs)).best =
      (run (State.init cfg g) (ds.map Event.define ++ evs)).bestChain := by
  have : run (State.init cfg g) (ds.map Event.define ++ evs) = run (run (State.init cfg g) (ds.map Event.define)) evs := by
    simp [run, List.foldl_append]
  rw [this]
  exact run_sync evs _ (init_defs_sync cfg g ds) hok

/-! ### The id-consistency hypothesis is needed (a statement that is FALSE of the model)

The step theorems take the block from a universe in which one id names one block.  Without that
— asking only that the declared height is the stored parent's + 1 — the statement is false of
the model: block ids are arbitrary numbers there, and a "block" that reuses the id of genesis
with another parent overwrites the stored genesis header.  In the implementation ids are
SHA3-256 hashes of the header, so this needs a hash collision; it is a limit of the model's
vocabulary, not a defect of the node. -/

def wf_processBlock_without_universe : Prop :=
  ∀ (U : Univ) (s : State) (b : Header), WF U s →
    (∀ p, s.header b.parent = some p → b.height = p.height + 1) → WF U (s.processBlock b).1

def exCfg : Config := { epoch := 2, nVal := 1, me := none }
def exG : Header := { id := 0, parent := 99, height := 0, slot := 0, rank := 0, sup := [] }
def exB (id parent height : Nat) : Header :=
  { id := id, parent := parent, height := height, slot := 0, rank := id, sup := [] }

theorem wf_processBlock_without_universe_refuted : ¬ wf_processBlock_without_universe := by
  intro hnaive
  -- genesis, then block 1 on top of it …
  have hc : Consistent exG [exB 1 0 1] := by decide +kernel
  have w0 : WF (Univ.ofBlocks exG [exB 1 0 1] hc) (State.init exCfg exG) :=
    init_wf _ exCfg exG rfl rfl ⟨exG, by simp, rfl, rfl, rfl⟩
  have w1 := processBlock_wf w0 (exB 1 0 1) ⟨exB 1 0 1, by simp, rfl, rfl, rfl⟩
  -- … then a "block" with the id of genesis, parent 1, height 2
  have hh : ∀ p, ((State.init exCfg exG).processBlock (exB 1 0 1)).1.header (exB 0 1 2).parent = some p →
      (exB 0 1 2).height = p.height + 1 := by
    intro p hp
    have h2 : (((State.init exCfg exG).processBlock (exB 1 0 1)).1.header (exB 0 1 2).parent).map (fun h => h.height) = some 1 := by
      decide +kernel
    rw [hp] at h2
    simp only [Option.map_some, Option.some.injEq] at h2
    show 2 = p.height + 1
    omega
  have w2 := hnaive _ _ (exB 0 1 2) w1 hh
  -- now no stored header has height 0
  obtain ⟨gp, hg⟩ := w2.store.genesis
  obtain ⟨hd, hl, _, h0, _⟩ := skelOf_some hg
  have hall : ∀ hd ∈ ((((State.init exCfg exG).processBlock (exB 1 0 1)).1).processBlock (exB 0 1 2)).1.headers,
      hd.height ≠ 0 := by decide +kernel
  exact hall hd (lookup_mem hl) h0

/-! ### non-vacuity of the hypotheses (tests on literal histories, evaluated by the kernel)

Fork 0 ← 1 ← 2 ← 4 and 1 ← 3, epoch length 2, one validator.  Blocks arrive out of order
(4 and 2 wait as orphans for 1), the branch through 2 and 4 becomes best; then a vote justifies
checkpoint 3 and the node reorganises to the SHORTER branch 0 ← 1 ← 3: the index keeps a stale
entry for height 3, and `inMain` must not report block 4 (the fixed defect F8). -/

def exEvents : List Event :=
  [.define (exB 1 0 1), .define (exB 2 1 2), .define (exB 3 1 2), .define (exB 4 2 3),
   .deliver (exB 4 2 3), .deliver (exB 2 1 2), .deliver (exB 1 0 1), .deliver (exB 3 1 2),
   .vote 0 0 3 true]

/-- hypotheses of `wf_reachable` / `reachable_index_and_inMain` -/
example : exG.height = 0 ∧ Consistent exG (delivered exEvents) := ⟨rfl, by decide +kernel⟩
/-- … also for a history with a restart and a redelivery after it -/
example : Consistent exG (delivered (exEvents ++ [.restart, .deliver (exB 4 2 3)])) := by decide +kernel
/-- hypotheses of `wf_processBlock`, `wf_authVerification`, `index_consistent`, `inMain_iff`,
    `tryReorganize_succeeds`: a non-trivial state with the invariant -/
example : ∃ U, WF U (run (State.init exCfg exG) exEvents) :=
  ⟨_, wf_reachable exCfg exG exEvents rfl (by decide +kernel)⟩
/-- before the vote: best is the long branch -/
example : (run (State.init exCfg exG) (exEvents.take 8)).best = 4 := by decide +kernel
/-- after the vote: the shorter branch with the justified checkpoint wins, height 3 is stale -/
example : (run (State.init exCfg exG) exEvents).best = 3 ∧
    (run (State.init exCfg exG) exEvents).index = [(0, 0), (1, 1), (2, 3), (3, 4)] := by decide +kernel
example : [exB 1 0 1, exB 2 1 2, exB 3 1 2, exB 4 2 3].map (inMain (run (State.init exCfg exG) exEvents)) =
    [true, false, true, false] := by decide +kernel
/-- hypotheses of `processBlock_follows_forkChoice` / `authVerification_follows_forkChoice` -/
example : (run (State.init exCfg exG) (exEvents.take 8)).best = (run (State.init exCfg exG) (exEvents.take 8)).bestChain ∧
    ((run (State.init exCfg exG) (exEvents.take 8)).authVerification 0 0 3 true).2 = .ok := by decide +kernel
/-- hypothesis of `run_follows_forkChoice` -/
example : AnswersOK (run (State.init exCfg exG) ([exB 1 0 1, exB 2 1 2, exB 3 1 2, exB 4 2 3].map Event.define))
    (exEvents.drop 4) := by decide +kernel
/-- hypotheses of the `calcReorg_*` theorems: a stored fork; attach [3], detach [4, 2] -/
example : (match (run (State.init exCfg exG) (exEvents.take 8)).header 3, (run (State.init exCfg exG) (exEvents.take 8)).header 4 with
    | some nb, some ob =>
      ((run (State.init exCfg exG) (exEvents.take 8)).calcReorg 20 nb ob [] []).map
        (fun r => (r.1.map (fun h => h.id), r.2.map (fun h => h.id)))
    | _, _ => none) = some ([3], [4, 2]) := by decide +kernel
example : StoreWF (skel (run (State.init exCfg exG) (exEvents.take 8))) 0 :=
  (wf_reachable exCfg exG (exEvents.take 8) rfl (by decide +kernel)).store
/-- hypothesis of `wf_restart` -/
example : ((State.init exCfg exG).restart).isSome = true := by decide +kernel

end BytomModel.Props.C11
