/-
C11 — Best chain follows the fork-choice rule and indexes stay consistent.

All theorems are about the executable node model `BytomModel.Node` (`Model/Node.lean`), whose
output is compared line by line with the real `protocol.Chain` + `casper.Casper` +
`database.Store` on every run of `./check C11` (harness `node`, driver `drv_node`).

Part 1 (fork choice).  `Tree.bestNode` (the model of `treeNode.bestNode`) against the
declarative rule: among ALL checkpoints of the tree, take the one whose key
  (height of the nearest justified checkpoint on the path from the root, height, rank of hash)
is largest in the lexicographic order — "highest justified checkpoint, then greatest height,
then largest hash".  `Tree.paths` / `jhOf` (Lemmas/NodeTree) are the declarative side.
-/
import BytomModel.Lemmas.NodeTree

namespace BytomModel.Props.C11
open BytomModel.Node BytomModel.Lemmas.NodeTree

/-! ### Part 1: the recursive search is the declarative fork-choice rule -/

/-- The key's first component is what the rule says: the height of the justified checkpoint
    nearest to the node on its path from the root, or the start value when there is none. -/
theorem jhOf_nearest_justified (jh : Nat) (p : List Ckpt) :
    jhOf jh p = match p.reverse.find? (fun c => c.status == .justified) with
      | some a => a.height
      | none => jh :=
  jhOf_eq_find jh p

/-- The nodes the paths end in are exactly the checkpoints of the tree. -/
theorem paths_cover_tree (t : Tree) (c : Ckpt) : c ∈ t.flatten ↔ ∃ p ∈ t.paths, p.getLast? = some c :=
  mem_flatten_iff t c

/-- `bestNode` returns a checkpoint of the tree together with ITS justified-height key. -/
theorem bestNode_mem (rankOf : Nat → Nat) (jh : Nat) (t : Tree) :
    ∃ p ∈ t.paths, p.getLast? = some (t.bestNode rankOf jh).1 ∧ jhOf jh p = (t.bestNode rankOf jh).2 := by
  obtain ⟨⟨p, hp, hk⟩, _⟩ := bestNode_spec rankOf t jh
  refine ⟨p, hp, ?_⟩
  simp only [endKey, Option.map_eq_some_iff] at hk
  obtain ⟨c, hc, hr⟩ := hk
  rw [← hr]; exact ⟨hc, rfl⟩

theorem bestNode_in_tree (rankOf : Nat → Nat) (jh : Nat) (t : Tree) : (t.bestNode rankOf jh).1 ∈ t.flatten := by
  obtain ⟨p, hp, hl, _⟩ := bestNode_mem rankOf jh t
  exact (mem_flatten_iff t _).mpr ⟨p, hp, hl⟩

/-- No checkpoint of the tree has a strictly better key than the one `bestNode` returns. -/
theorem bestNode_maximal (rankOf : Nat → Nat) (jh : Nat) (t : Tree) (p : List Ckpt) (hp : p ∈ t.paths)
    (c : Ckpt) (hc : p.getLast? = some c) :
    better (jhOf jh p) c.height (rankOf c.hash)
      (t.bestNode rankOf jh).2 (t.bestNode rankOf jh).1.height (rankOf (t.bestNode rankOf jh).1.hash) = false := by
  obtain ⟨_, hmax⟩ := bestNode_spec rankOf t jh
  exact hmax p hp (c, jhOf jh p) (by simp [endKey, hc])

/-- Uniqueness: when distinct hashes of the tree have distinct ranks (the rank stands for the
    hash's position in the string order), every maximal checkpoint is the one returned. -/
theorem bestNode_unique (rankOf : Nat → Nat) (jh : Nat) (t : Tree)
    (hinj : ∀ a ∈ t.flatten, ∀ b ∈ t.flatten, rankOf a.hash = rankOf b.hash → a.hash = b.hash)
    (p : List Ckpt) (hp : p ∈ t.paths) (c : Ckpt) (hc : p.getLast? = some c)
    (hmax : ∀ q ∈ t.paths, ∀ d, q.getLast? = some d →
      better (jhOf jh q) d.height (rankOf d.hash) (jhOf jh p) c.height (rankOf c.hash) = false) :
    c.hash = (t.bestNode rankOf jh).1.hash ∧ c.height = (t.bestNode rankOf jh).1.height ∧
      jhOf jh p = (t.bestNode rankOf jh).2 := by
  obtain ⟨q, hq, hql, hqj⟩ := bestNode_mem rankOf jh t
  have h1 := bestNode_maximal rankOf jh t p hp c hc
  have h2 := hmax q hq _ hql
  rw [hqj] at h2
  obtain ⟨hj, hh, hr⟩ := better_total h1 h2
  exact ⟨hinj c ((mem_flatten_iff t c).mpr ⟨p, hp, hc⟩) _ (bestNode_in_tree rankOf jh t) hr, hh, hj⟩

/-- `Casper.BestChain` of a node state is the fork choice over its checkpoint tree. -/
theorem bestChain_is_forkChoice (s : State) :
    (∃ p ∈ s.tree.paths, ∃ c, p.getLast? = some c ∧ c.hash = s.bestChain ∧
      ∀ q ∈ s.tree.paths, ∀ d, q.getLast? = some d →
        better (jhOf s.tree.ckpt.height q) d.height (s.rankOf d.hash)
               (jhOf s.tree.ckpt.height p) c.height (s.rankOf c.hash) = false) := by
  obtain ⟨p, hp, hl, hj⟩ := bestNode_mem s.rankOf s.tree.ckpt.height s.tree
  refine ⟨p, hp, _, hl, rfl, ?_⟩
  intro q hq d hd
  rw [hj]
  exact bestNode_maximal s.rankOf s.tree.ckpt.height s.tree q hq d hd

/-! non-vacuity (tests on a literal tree): root justified at 0 with two branches; the branch
    holding a justified checkpoint wins although the other is higher. -/
def exTree : Tree :=
  .node { hash := 0, height := 0, parentHash := 0, status := .justified, sup := [] }
    [ .node { hash := 1, height := 2, parentHash := 0, status := .unjustified, sup := [] }
        [ .node { hash := 3, height := 4, parentHash := 1, status := .growing, sup := [] } [] ],
      .node { hash := 2, height := 2, parentHash := 0, status := .justified, sup := [] } [] ]

example : (exTree.bestNode id 0).1.hash = 2 ∧ (exTree.bestNode id 0).2 = 2 := by decide
example : exTree.paths.length = 4 := by decide
example : ∀ a ∈ exTree.flatten, ∀ b ∈ exTree.flatten, id a.hash = id b.hash → a.hash = b.hash := by decide

end BytomModel.Props.C11
