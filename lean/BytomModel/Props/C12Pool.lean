import BytomModel.Model.OrphanPool
/-
C12 (orphan pool, the part with capacity limit / LRU eviction / expiry that Model/Node.lean
leaves out): theorems over Model/OrphanPool.lean for ALL operation sequences.
-/
namespace BytomModel.Props.C12Pool
open BytomModel.Model.OrphanPool

/-! ### assoc-list facts -/

theorem get_erase (m : Idx) (p q : Nat) :
    Idx.get (Idx.erase m p) q = if q = p then none else Idx.get m q := by
  unfold Idx.get Idx.erase
  rw [List.find?_filter]
  by_cases h : q = p
  · subst h
    have : (fun a : Nat × List Nat => decide ((a.1 != q) = true ∧ (a.1 == q) = true)) = fun _ => false := by
      funext a; by_cases h : a.1 = q <;> simp [h]
    rw [this]; simp
  · have : (fun a : Nat × List Nat => decide ((a.1 != p) = true ∧ (a.1 == q) = true)) = fun a => a.1 == q := by
      funext a; by_cases h1 : a.1 = q
      · have h2 : ¬ a.1 = p := by omega
        simp [h1]; omega
      · simp [h1]
    rw [this]; simp [h]

theorem get_set (m : Idx) (p q : Nat) (l : List Nat) :
    Idx.get (Idx.set m p l) q = if q = p then some l else Idx.get m q := by
  by_cases h : q = p
  · subst h; simp [Idx.set, Idx.get, List.find?_cons]
  · have h' : ¬ p = q := fun e => h e.symm
    have := get_erase m p q
    simp [h] at this
    simp [Idx.set, Idx.get, List.find?_cons, h', h] at this ⊢
    exact this

/-! ### size -/

theorem delete_limit (s : Pool) (h : Nat) : (s.delete h).limit = s.limit := by
  unfold Pool.delete; split
  · rfl
  · split
    · rfl
    · split
      · rfl
      · split <;> rfl

theorem delete_clock (s : Pool) (h : Nat) : (s.delete h).clock = s.clock := by
  unfold Pool.delete; split
  · rfl
  · split
    · rfl
    · split
      · rfl
      · split <;> rfl

theorem delete_orphans (s : Pool) (h : Nat) :
    (s.delete h).orphans = s.orphans.filter (fun x => x.id != h) := by
  unfold Pool.delete; split
  · rename_i hf
    simp only [Pool.find, List.find?_eq_none] at hf
    symm; apply List.filter_eq_self.mpr
    intro a ha; have := hf a ha; simpa using this
  · split
    · rfl
    · split
      · rfl
      · split <;> rfl

theorem delete_length_le (s : Pool) (h : Nat) : (s.delete h).orphans.length ≤ s.orphans.length := by
  rw [delete_orphans]; exact List.length_filter_le _ _

theorem delete_length_lt (s : Pool) (o : Orphan) (ho : o ∈ s.orphans) :
    (s.delete o.id).orphans.length < s.orphans.length := by
  rw [delete_orphans]
  apply List.length_filter_lt_length_iff_exists.mpr
  exact ⟨o, ho, by simp⟩

theorem minExp_mem : ∀ (os : List Orphan) (m : Orphan), minExp os = some m → m ∈ os
  | [], m, h => by simp [minExp] at h
  | o :: os, m, h => by
    unfold minExp at h
    split at h
    · simp at h; subst h; simp
    · rename_i m' hm'
      split at h
      · simp at h; subst h; exact List.mem_cons_of_mem _ (minExp_mem os _ hm')
      · simp at h; subst h; simp

theorem minExp_none : ∀ (os : List Orphan), minExp os = none → os = []
  | [], _ => rfl
  | o :: os, h => by
    unfold minExp at h
    split at h
    · simp at h
    · split at h <;> simp at h

/-- the evicted entry is the oldest: nothing in the pool expires earlier -/
theorem minExp_le : ∀ (os : List Orphan) (m : Orphan), minExp os = some m → ∀ o ∈ os, m.exp ≤ o.exp
  | [], m, h => by simp [minExp] at h
  | o :: os, m, h => by
    intro x hx
    unfold minExp at h
    split at h
    · rename_i hn
      have := minExp_none os hn; subst this
      simp at h hx; subst h; subst hx; exact Nat.le_refl _
    · rename_i m' hm'
      have ih := minExp_le os m' hm'
      split at h
      · rename_i hlt
        simp at h; subst h
        rcases List.mem_cons.mp hx with rfl | hx
        · omega
        · exact ih x hx
      · rename_i hge
        simp at h; subst h
        rcases List.mem_cons.mp hx with rfl | hx
        · exact Nat.le_refl _
        · have := ih x hx; omega

theorem deleteLRU_limit (s : Pool) : s.deleteLRU.limit = s.limit := by
  unfold Pool.deleteLRU; split
  · rfl
  · exact delete_limit _ _

theorem deleteLRU_length (s : Pool) (hne : s.orphans ≠ []) :
    s.deleteLRU.orphans.length < s.orphans.length := by
  unfold Pool.deleteLRU; split
  · rename_i hn; exact absurd (minExp_none _ hn) hne
  · rename_i o ho; exact delete_length_lt s o (minExp_mem _ _ ho)

theorem add_limit (s : Pool) (h p : Nat) : (s.add h p).limit = s.limit := by
  unfold Pool.add; simp only
  split
  · rfl
  · split
    · simp [deleteLRU_limit]
    · rfl

/-- one Add keeps the pool within its capacity -/
theorem add_size (s : Pool) (h p : Nat) (hl : 0 < s.limit) (hs : s.orphans.length ≤ s.limit) :
    (s.add h p).orphans.length ≤ s.limit := by
  unfold Pool.add; simp only
  split
  · exact hs
  · split
    · rename_i hfull
      simp only [List.length_append, List.length_cons, List.length_nil]
      have hne : ({ s with clock := s.clock + 1 } : Pool).orphans ≠ [] := by
        intro he; simp at he; simp [he] at hfull; omega
      have := deleteLRU_length { s with clock := s.clock + 1 } hne
      simp at this ⊢; omega
    · rename_i hnf
      simp only [List.length_append, List.length_cons, List.length_nil]
      simp at hnf ⊢; omega

theorem expire_limit_size (s : Pool) (k : Nat) :
    (s.expire k).limit = s.limit ∧ (s.expire k).orphans.length ≤ s.orphans.length := by
  unfold Pool.expire
  generalize s.orphans.filter (fun o => o.exp ≤ k) = l
  induction l generalizing s with
  | nil => simp
  | cons o l ih =>
    simp only [List.foldl_cons]
    have := ih (s.delete o.id)
    rw [delete_limit] at this
    exact ⟨this.1, Nat.le_trans this.2 (delete_length_le _ _)⟩

/-- **Capacity bound, every reachable state**: after ANY sequence of Add / Delete / expiry
    passes the pool holds at most `limit` orphans. -/
theorem size_le_limit (limit : Nat) (hl : 0 < limit) (ops : List Op) :
    ((Pool.init limit).run ops).orphans.length ≤ limit ∧ ((Pool.init limit).run ops).limit = limit := by
  suffices ∀ s : Pool, s.limit = limit → s.orphans.length ≤ limit →
      (s.run ops).orphans.length ≤ limit ∧ (s.run ops).limit = limit from
    this (Pool.init limit) rfl (by simp [Pool.init])
  induction ops with
  | nil => intro s h1 h2; exact ⟨h2, h1⟩
  | cons op ops ih =>
    intro s h1 h2
    simp only [Pool.run, List.foldl_cons]
    apply ih
    · cases op with
      | add h p => simp [Pool.step, add_limit, h1]
      | del h => simp [Pool.step, delete_limit, h1]
      | expire k => simp [Pool.step, (expire_limit_size s k).1, h1]
    · cases op with
      | add h p => simp only [Pool.step]; have := add_size s h p (by omega) (by omega); omega
      | del h => simp only [Pool.step]; have := delete_length_le s h; omega
      | expire k => simp only [Pool.step]; have := (expire_limit_size s k).2; omega

/-- **LRU**: an Add into a full pool evicts exactly the entry with the earliest expiration
    (the least recently added one) and nothing else. -/
theorem add_full_evicts_oldest (s : Pool) (h p : Nat) (m : Orphan)
    (hnew : s.find h = none) (hfull : s.orphans.length ≥ s.limit) (hm : minExp s.orphans = some m) :
    (s.add h p).orphans = s.orphans.filter (fun x => x.id != m.id) ++ [{ id := h, parent := p, exp := s.clock + 1 }]
    ∧ ∀ o ∈ s.orphans, m.exp ≤ o.exp := by
  refine ⟨?_, minExp_le _ _ hm⟩
  unfold Pool.add; simp only
  have hf : ({ s with clock := s.clock + 1 } : Pool).find h = none := by simpa [Pool.find] using hnew
  simp only [hf, Option.isSome_none, Bool.false_eq_true, if_false]
  have hfull' : ({ s with clock := s.clock + 1 } : Pool).orphans.length ≥ ({ s with clock := s.clock + 1 } : Pool).limit := hfull
  simp only [hfull', if_true]
  have hd : ({ s with clock := s.clock + 1 } : Pool).deleteLRU = ({ s with clock := s.clock + 1 } : Pool).delete m.id := by
    unfold Pool.deleteLRU; simp only [hm]
  rw [hd, delete_orphans, delete_clock]

/-- an Add into a pool with room evicts nothing -/
theorem add_room_keeps_all (s : Pool) (h p : Nat)
    (hnew : s.find h = none) (hroom : s.orphans.length < s.limit) :
    (s.add h p).orphans = s.orphans ++ [{ id := h, parent := p, exp := s.clock + 1 }] := by
  unfold Pool.add; simp only
  have hf : ({ s with clock := s.clock + 1 } : Pool).find h = none := by simpa [Pool.find] using hnew
  simp only [hf, Option.isSome_none, Bool.false_eq_true, if_false]
  have : ¬ (({ s with clock := s.clock + 1 } : Pool).orphans.length ≥ ({ s with clock := s.clock + 1 } : Pool).limit) := by
    simp; exact hroom
  simp only [this, if_false]

/-- re-delivery of a pooled block changes nothing (only the clock ticks): no second index
    entry, no eviction, expiration not refreshed -/
theorem add_present_noop (s : Pool) (h p : Nat) (o : Orphan) (hf : s.find h = some o) :
    (s.add h p).orphans = s.orphans ∧ (s.add h p).idx = s.idx ∧ (s.add h p).limit = s.limit := by
  unfold Pool.add; simp only
  have hf' : ({ s with clock := s.clock + 1 } : Pool).find h = some o := by simpa [Pool.find] using hf
  simp [hf']

/-- deleting a block that is not pooled changes nothing -/
theorem delete_absent_noop (s : Pool) (h : Nat) (hf : s.find h = none) : s.delete h = s := by
  unfold Pool.delete; simp [hf]

-- the hypotheses are satisfiable on a non-trivial pool (a test, not the theorem)
example : let s := (Pool.init 2).run [.add 1 7, .add 2 7]
    s.find 3 = none ∧ s.orphans.length ≥ s.limit ∧ (minExp s.orphans).map (·.id) = some 1 := by decide

end BytomModel.Props.C12Pool
