import BytomModel.Model.DHT
namespace BytomModel.Props.C34
open BytomModel.Model.DHT

theorem placeholder_empty (s : Nat) : (empty s).count = 0 := rfl

end BytomModel.Props.C34
