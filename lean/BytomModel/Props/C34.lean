/-
C34 — DHT routing table keeps its invariants.

All theorems are about `BytomModel.Model.DHT` (the model of `p2p/discover/dht/table.go`
that is compared with the real table after every operation on every run).  `dist` is the
bucket index of a node id (`logdist(self.sha, n.sha)`), any function with values below
`nBuckets = 257`.  "After any sequence of operations" = `run dist (empty self) ops` for an
arbitrary list `ops` of add / stuff / delete / deleteReplace / bump.
-/
import BytomModel.Model.DHT
import BytomModel.Lemmas.DHT

namespace BytomModel.Props.C34
open BytomModel.Model.DHT BytomModel.Lemmas.DHT

/-! ### every operation preserves the invariants (one step) -/

theorem step_self (dist : Nat → Nat) (t : Table) (op : Op) : (step dist t op).self = t.self := by
  cases op with
  | add n => simp only [step, add]; split <;> rfl
  | stuff ns =>
    simp only [step, stuff]
    induction ns generalizing t with
    | nil => rfl
    | cons a rest ih =>
      rw [List.foldl_cons, ih]
      unfold stuff1; split <;> rfl
  | delete n => rfl
  | deleteReplace n => rfl
  | bump n => rfl

theorem step_inv (dist : Nat → Nat) (hd : ∀ n, dist n < nBuckets) (t : Table) (op : Op) (h : Inv dist t) :
    Inv dist (step dist t op) := by
  cases op with
  | add n =>
    simp only [step, add]
    split
    · exact h
    · rename_i hs
      exact inv_put h _ (hd n) _ _ (addB_binv (h.bucket _) rfl hs) (addB_len _ _)
  | stuff ns =>
    simp only [step, stuff]
    induction ns generalizing t with
    | nil => exact h
    | cons a rest ih =>
      rw [List.foldl_cons]
      apply ih
      unfold stuff1
      split
      · exact h
      · rename_i hs
        exact inv_put h _ (hd a) _ _ (stuffB_binv (h.bucket _) rfl hs) (stuffB_len _ _)
  | delete n => exact inv_put h _ (hd n) _ _ (deleteB_binv n (h.bucket _)) (deleteB_len _ _)
  | deleteReplace n => exact inv_put h _ (hd n) _ _ (deleteReplaceB_binv n (h.bucket _)) (deleteReplaceB_len _ _)
  | bump n =>
    exact inv_put h _ (hd n) _ _ (bump_binv n (h.bucket _)) (by simp [bump_len])

theorem empty_inv (dist : Nat → Nat) (self : Nat) : Inv dist (empty self) := by
  constructor
  · intro i; exact ⟨by simp [empty], by simp [empty], by simp [empty], by simp [empty], by simp [empty], by simp [empty]⟩
  · have : ∀ k, total (fun _ => ({} : Bucket)) k = 0 := by
      intro k; induction k with
      | zero => rfl
      | succ k ih => simp [total, ih]
    show (0 : Int) = ((total (fun _ => ({} : Bucket)) nBuckets : Nat) : Int)
    rw [this]; rfl

/-- `table_inv`: the unconditional part of the property after ANY operation sequence -/
theorem table_inv (dist : Nat → Nat) (hd : ∀ n, dist n < nBuckets) (self : Nat) (ops : List Op) :
    Inv dist (run dist (empty self) ops) := by
  unfold run
  suffices ∀ t, Inv dist t → Inv dist (ops.foldl (step dist) t) from this _ (empty_inv dist self)
  induction ops with
  | nil => intro t h; exact h
  | cons op rest ih => intro t h; exact ih _ (step_inv dist hd t op h)

theorem run_self (dist : Nat → Nat) (self : Nat) (ops : List Op) : (run dist (empty self) ops).self = self := by
  unfold run
  suffices ∀ t, (ops.foldl (step dist) t).self = t.self from this _
  induction ops with
  | nil => intro t; rfl
  | cons op rest ih => intro t; rw [List.foldl_cons, ih, step_self]

/-- each bucket holds at most sixteen nodes -/
theorem bucket_size_le (dist : Nat → Nat) (hd : ∀ n, dist n < nBuckets) (self : Nat) (ops : List Op) (i : Nat) :
    ((run dist (empty self) ops).buckets i).entries.length ≤ 16 :=
  ((table_inv dist hd self ops).bucket i).len

/-- … at that bucket's distance -/
theorem entries_at_distance (dist : Nat → Nat) (hd : ∀ n, dist n < nBuckets) (self : Nat) (ops : List Op) (i n : Nat)
    (h : n ∈ ((run dist (empty self) ops).buckets i).entries) : dist n = i :=
  ((table_inv dist hd self ops).bucket i).eDist n h

/-- the local node is never present (neither as an entry nor parked) -/
theorem self_absent (dist : Nat → Nat) (hd : ∀ n, dist n < nBuckets) (self : Nat) (ops : List Op) (i : Nat) :
    self ∉ ((run dist (empty self) ops).buckets i).entries ∧ self ∉ ((run dist (empty self) ops).buckets i).replacements := by
  have h := (table_inv dist hd self ops).bucket i
  rw [run_self] at h
  exact ⟨h.eSelf, h.rSelf⟩

/-- the recorded node count equals the number of bucket entries -/
theorem count_eq_entries (dist : Nat → Nat) (hd : ∀ n, dist n < nBuckets) (self : Nat) (ops : List Op) :
    (run dist (empty self) ops).count = ((total (run dist (empty self) ops).buckets nBuckets : Nat) : Int) :=
  (table_inv dist hd self ops).count

/-- the replacement lists are bounded as well and filed under the right distance -/
theorem replacements_bounded (dist : Nat → Nat) (hd : ∀ n, dist n < nBuckets) (self : Nat) (ops : List Op) (i : Nat) :
    ((run dist (empty self) ops).buckets i).replacements.length ≤ 16 ∧
    ∀ n ∈ ((run dist (empty self) ops).buckets i).replacements, dist n = i :=
  ⟨((table_inv dist hd self ops).bucket i).rLen, ((table_inv dist hd self ops).bucket i).rDist⟩

/-! ### distinctness of the entries -/

theorem step_distinct (dist : Nat → Nat) (t : Table) (op : Op) (h : ∀ j, Distinct (t.buckets j)) :
    ∀ j, Distinct ((step dist t op).buckets j) := by
  cases op with
  | add n =>
    simp only [step, add]
    split
    · exact h
    · exact forall_put h _ _ _ (addB_distinct (h _))
  | stuff ns =>
    simp only [step, stuff]
    induction ns generalizing t with
    | nil => exact h
    | cons a rest ih =>
      rw [List.foldl_cons]
      apply ih
      unfold stuff1
      split
      · exact h
      · exact forall_put h _ _ _ (stuffB_distinct (h _))
  | delete n => exact forall_put h _ _ _ (deleteB_distinct n (h _))
  | deleteReplace n => exact forall_put h _ _ _ (deleteReplaceB_distinct n (h _))
  | bump n => exact forall_put h _ _ _ (bump_distinct n (h _))

theorem empty_distinct (self : Nat) : ∀ j, Distinct ((empty self).buckets j) := by
  intro j; exact ⟨by simp [empty], by simp [empty], by simp [empty]⟩

/-- after ANY operation sequence every bucket's entries and replacements are duplicate-free
    and disjoint (a node is an entry or parked, never both) -/
theorem table_distinct (dist : Nat → Nat) (self : Nat) (ops : List Op) (i : Nat) :
    Distinct ((run dist (empty self) ops).buckets i) := by
  unfold run
  suffices ∀ t, (∀ j, Distinct (t.buckets j)) → ∀ j, Distinct ((ops.foldl (step dist) t).buckets j) from
    this _ (empty_distinct self) i
  induction ops with
  | nil => intro t h; exact h
  | cons op rest ih => intro t h; exact ih (step dist t op) (step_distinct dist t op h)

/-- the property's "distinct nodes" at full strength: the entries of every bucket are pairwise
    distinct after ANY operation sequence (since fix 2cde86cd `add`/`stuff` take the node out
    of the replacement list before inserting it) -/
theorem nodup (dist : Nat → Nat) (self : Nat) (ops : List Op) (i : Nat) :
    ((run dist (empty self) ops).buckets i).entries.Nodup :=
  (table_distinct dist self ops i).e

/-- the old F20 sequence: 16 nodes stuffed, node 17 parked, entry 1 deleted, 17 added again,
    deleteReplace of entry 2 -/
def f20ops : List Op :=
  [.stuff [1, 2, 3, 4, 5, 6, 7, 8, 9, 10, 11, 12, 13, 14, 15, 16], .add 17, .delete 1, .add 17, .deleteReplace 2]

/-- `add` on a full bucket reports the least recently active entry as contested and parks the node -/
theorem add_contested (dist : Nat → Nat) (t : Table) (n c : Nat) (h : (add dist t n).2 = some c) :
    (t.buckets (dist n)).entries.getLast? = some c ∧ n ∉ (t.buckets (dist n)).entries ∧
    bucketSize ≤ (t.buckets (dist n)).entries.length := by
  unfold add at h
  split at h
  · cases h
  · simp only [addB] at h
    split at h
    · cases h
    · split at h
      · cases h
      · rename_i h1 h2
        exact ⟨h, h1, by omega⟩

/-! ### what the operations do to the order (most recently active first) -/

/-- `add` of a node that is an entry, or for which there is room, makes it the first
    (most recently active) entry of its bucket -/
theorem add_moves_front (dist : Nat → Nat) (t : Table) (n : Nat) (hs : n ≠ t.self)
    (h : n ∈ (t.buckets (dist n)).entries ∨ (t.buckets (dist n)).entries.length < bucketSize) :
    (((add dist t n).1).buckets (dist n)).entries.head? = some n := by
  unfold add
  rw [if_neg hs]
  simp only [Table.put, if_true]
  unfold addB
  split
  · unfold bump; rename_i hm; rw [if_pos hm]; rfl
  · rename_i hm
    rcases h with h | h
    · exact absurd h hm
    · rw [if_pos h]; rfl

/-- `add` on a full bucket parks the node as the LAST replacement -/
theorem add_parks_last (dist : Nat → Nat) (t : Table) (n : Nat) (hs : n ≠ t.self)
    (h1 : n ∉ (t.buckets (dist n)).entries) (h2 : ¬ (t.buckets (dist n)).entries.length < bucketSize) :
    (((add dist t n).1).buckets (dist n)).replacements.getLast? = some n ∧
    (((add dist t n).1).buckets (dist n)).entries = (t.buckets (dist n)).entries := by
  unfold add
  rw [if_neg hs]
  simp only [Table.put, if_true]
  unfold addB
  rw [if_neg h1, if_neg h2]
  refine ⟨?_, rfl⟩
  simp only
  split
  · rename_i hl
    -- the list has ≥ 2 elements, its tail keeps the last one
    generalize hf : List.filter (fun x => decide (x ≠ n)) (t.buckets (dist n)).replacements = f at hl ⊢
    cases f with
    | nil => simp [bucketSize] at hl
    | cons a r => simp
  · simp

/-- `stuff` appends a new node at the END of its bucket (least recently active) -/
theorem stuff1_appends (dist : Nat → Nat) (t : Table) (n : Nat) (hs : n ≠ t.self)
    (h1 : n ∉ (t.buckets (dist n)).entries) (h2 : (t.buckets (dist n)).entries.length < bucketSize) :
    ((stuff1 dist t n).buckets (dist n)).entries = (t.buckets (dist n)).entries ++ [n] := by
  unfold stuff1
  rw [if_neg hs]
  simp only [Table.put, if_true]
  unfold stuffB
  rw [if_neg h1, if_pos h2]

/-- after `deleteReplace n` the node is gone from its bucket — entries and replacements —
    whatever the table looked like before -/
theorem deleteReplace_removes (dist : Nat → Nat) (t : Table) (n : Nat) :
    n ∉ ((deleteReplace dist t n).buckets (dist n)).entries ∧
    n ∉ ((deleteReplace dist t n).buckets (dist n)).replacements := by
  unfold deleteReplace
  simp only [Table.put, if_true]
  unfold deleteReplaceB
  simp only
  split
  · rename_i last hl
    have hlast : last ≠ n := (mem_filter_ne.mp (List.mem_of_getLast? hl)).2
    split
    · refine ⟨?_, ?_⟩
      · simp only [List.mem_cons, not_or]
        exact ⟨fun e => hlast e.symm, fun hm => (mem_filter_ne.mp hm).2 rfl⟩
      · intro hm; exact (mem_filter_ne.mp (mem_of_mem_dropLast' hm)).2 rfl
    · exact ⟨fun hm => (mem_filter_ne.mp hm).2 rfl, fun hm => (mem_filter_ne.mp hm).2 rfl⟩
  · exact ⟨fun hm => (mem_filter_ne.mp hm).2 rfl, fun hm => (mem_filter_ne.mp hm).2 rfl⟩

/-- `delete n` removes the node from the entries of every reachable table -/
theorem delete_removes (dist : Nat → Nat) (self : Nat) (ops : List Op) (n : Nat) :
    n ∉ ((delete dist (run dist (empty self) ops) n).buckets (dist n)).entries := by
  have hd := nodup dist self ops (dist n)
  unfold delete
  simp only [Table.put, if_true]
  unfold deleteB
  split
  · simp only; rw [hd.mem_erase_iff]; simp
  · rename_i h; simpa [delRepl] using h

/-! ### the hypotheses are satisfiable on non-trivial values (tests, not proofs of the property) -/

/-- the F20 witness (repaired by 2cde86cd): node 17 is now once in the bucket and no longer parked -/
example : (run (fun _ => 0) (empty 0) f20ops).buckets 0
    = ⟨[17, 3, 4, 5, 6, 7, 8, 9, 10, 11, 12, 13, 14, 15, 16], []⟩ := by decide
example : ((run (fun n => n % 2) (empty 0) [.add 1, .add 3, .stuff [5, 7, 1], .bump 5]).buckets 1).entries = [5, 3, 1, 7] := by decide
example : (run (fun _ => 0) (empty 0) f20ops).count = 15 := by decide

end BytomModel.Props.C34
