/-
C01 — validated transactions conserve value and report the true fee.

Stated over M-TxVal (`Model/TxValidate`), whose checked int64 operations are the functions
REGENERATED from /repo/math/checked/checked.go (`Gen/Checked`): a changed guard in
AddInt64/SubInt64/DivInt64/MulInt64 re-opens these proofs (through Props/C31).

`order` is the iteration order of Go's `range parity`; every theorem holds for EVERY
permutation-valued `order`, and `order_irrelevant` shows verdict and gas state do not depend
on it at all.
-/
import BytomModel.Lemmas.TxValidate
import BytomModel.Lemmas.TxComplete
import BytomModel.Lemmas.TxEntries

namespace BytomModel.Props.C01
open BytomModel.Fixed BytomModel.Gen.Checked BytomModel.Model.TxValidate BytomModel.Lemmas.TxValidate
open BytomModel.Lemmas.TxComplete
open BytomModel.Model.TxEntries BytomModel.Lemmas.TxEntries

/-- `order` only permutes the map entries -/
def IsOrder (order : PMap → PMap) : Prop := ∀ m, (order m).Perm m

/-- TRUE (unbounded ℕ) total of asset `a` over spends + issuances + vetoes -/
def totalIn (a : Nat) (tx : Tx) : Nat :=
  sumOf a ((tx.inputs.filter (fun i => i.kind ≠ .coinbase)).map (fun i => (i.asset, i.amount)))

/-- TRUE total of asset `a` over outputs + votes + retirements -/
def totalOut (a : Nat) (tx : Tx) : Nat := sumOf a (tx.outputs.map muxDest)

/-- TRUE total of asset `a` over the mux sources (a coinbase input contributes the wrapped
    sum of all outputs, as BTM) -/
def srcTotal (a : Nat) (tx : Tx) : Nat := sumOf a (tx.inputs.map (muxSource tx.outputs))

def NoCoinbase (tx : Tx) : Prop := ∀ i ∈ tx.inputs, i.kind ≠ .coinbase

/-! ### the mux stage -/

/-- Core of the property: whenever the mux case succeeds, every non-BTM asset has equal
    true source and destination totals, BTM sources cover BTM destinations, the reported
    `BTMValue` is exactly the difference, and no source total exceeds MaxInt64. -/
theorem mux_balance {ctx : Ctx} {order : PMap → PMap} {tx : Tx} {g : Gas} (ho : IsOrder order)
    (h : checkMux ctx order tx = .ok g) :
    (∀ a, a ≠ btm → srcTotal a tx = totalOut a tx) ∧ totalOut btm tx ≤ srcTotal btm tx ∧
    g.btmValue = srcTotal btm tx - totalOut btm tx ∧ (∀ a, srcTotal a tx ≤ maxInt64) ∧
    (∀ o ∈ tx.outputs, o.asset ∈ (tx.inputs.map (muxSource tx.outputs)).map Prod.fst) := by
  unfold checkMux at h
  split at h
  · cases h
  rename_i m1 h1
  split at h
  · cases h
  rename_i m2 h2
  split at h
  · cases h
  rename_i g1 h3
  split at h
  · cases h
  rename_i g2 h4
  have hb : g.btmValue = g1.btmValue := by rw [chargeStorageGas_btm h, checkInputs_btm h4]
  obtain ⟨a1, a2, a3, a4, _⟩ := addSources_spec h1 inRange_nil (by simp [keys])
  obtain ⟨b1, b2, b3, b4, b5⟩ := subDests_spec h2 a1 a2
  have hperm := ho m2
  have hn : (keys (order m2)).Nodup := (List.Perm.nodup_iff (hperm.map Prod.fst)).mpr b2
  have hr : InRange' (order m2) := fun p hp => inRange'_of b1 b2 p (hperm.subset hp)
  obtain ⟨c1, c2, c3⟩ := parityLoop_ok h3 hr
  -- value of every key
  have hval : ∀ a, ((pget m2 a).getD 0 : Int) = (srcTotal a tx : Int) - (totalOut a tx : Int) := by
    intro a
    have := b3 a; rw [a3 a] at this
    simp [pget] at this
    rw [this]; rfl
  have hS : ∀ a, srcTotal a tx ≤ maxInt64 := by
    intro a
    have := a3 a; simp [pget] at this
    unfold srcTotal
    have hi := inRange_getD a1 a
    rw [this, inI64_iff] at hi
    unfold maxInt64; omega
  have hnone : ∀ a, pget m2 a = none → srcTotal a tx = 0 ∧ totalOut a tx = 0 := by
    intro a ha
    rw [pget_none_iff, b4 a] at ha
    have hs : a ∉ (tx.inputs.map (muxSource tx.outputs)).map Prod.fst := by
      intro c; exact ha ((a4 a).mpr (Or.inr c))
    refine ⟨sumOf_zero_of_not_mem hs, sumOf_zero_of_not_mem ?_⟩
    intro c
    obtain ⟨p, hp, e⟩ := List.mem_map.mp c
    exact ha (e ▸ (b5 p hp).1)
  refine ⟨?_, ?_, ?_, hS, ?_⟩
  · intro a ha
    cases e : pget m2 a with
    | none => rw [(hnone a e).1, (hnone a e).2]
    | some v =>
      have hm : (a, v) ∈ order m2 := hperm.symm.subset (pget_mem e)
      have hz := (c1 _ hm).2 ha
      have := hval a; rw [e] at this; simp at this hz; omega
  · cases e : pget m2 btm with
    | none => rw [(hnone btm e).1, (hnone btm e).2]
    | some v =>
      have hm : (btm, v) ∈ order m2 := hperm.symm.subset (pget_mem e)
      have hz := (c1 _ hm).1 rfl
      have := hval btm; rw [e] at this; simp at this hz; omega
  · rw [hb]
    cases e : pget m2 btm with
    | none =>
      rw [(hnone btm e).1, (hnone btm e).2]
      have hall : ∀ p ∈ order m2, p.1 ≠ btm := by
        intro p hp c
        have : btm ∈ keys m2 := c ▸ List.mem_map.mpr ⟨p, hperm.subset hp, rfl⟩
        rw [pget_none_iff] at e; exact e this
      rw [c2 hall]; rfl
    | some v =>
      have hm : (btm, v) ∈ order m2 := hperm.symm.subset (pget_mem e)
      rw [c3 v hm hn]
      have hz := (c1 _ hm).1 rfl
      have := hval btm; rw [e] at this; simp at this hz; omega
  · intro o ho'
    have hk := (b5 (muxDest o) (List.mem_map.mpr ⟨o, ho', rfl⟩)).1
    rcases (a4 _).mp hk with c | c
    · simp [keys] at c
    · exact c

/-! ### Go's map iteration order is irrelevant for accepted transactions -/

theorem checkMux_order {ctx : Ctx} {o1 o2 : PMap → PMap} {tx : Tx} {g : Gas} (h1 : IsOrder o1) (h2 : IsOrder o2)
    (h : checkMux ctx o1 tx = .ok g) : checkMux ctx o2 tx = .ok g := by
  unfold checkMux at h ⊢
  split at h
  · cases h
  rename_i m1 e1
  split at h
  · cases h
  rename_i m2 e2
  split at h
  · cases h
  rename_i g1 e3
  obtain ⟨a1, a2, _, _, _⟩ := addSources_spec e1 inRange_nil (by simp [keys])
  obtain ⟨_, b2, _, _, _⟩ := subDests_spec e2 a1 a2
  have hn : (keys (o1 m2)).Nodup := (List.Perm.nodup_iff ((h1 m2).map Prod.fst)).mpr b2
  have := parityLoop_perm ((h1 m2).trans (h2 m2).symm) hn _ _ e3
  simp only [this]
  exact h

theorem checkResults_order {ctx : Ctx} {o1 o2 : PMap → PMap} {tx : Tx} (h1 : IsOrder o1) (h2 : IsOrder o2) :
    ∀ {outs : List Output} {st st' : Option Gas},
    checkResults ctx o1 tx st outs = .ok st' → checkResults ctx o2 tx st outs = .ok st' := by
  intro outs
  induction outs with
  | nil => intro st st' h; exact h
  | cons o t ih =>
    intro st st' h
    simp only [checkResults] at h ⊢
    split
    · rename_i c; simp [c] at h
    · rename_i c
      simp only [c, if_false] at h
      cases st with
      | some g0 =>
        simp only at h ⊢
        split
        · rename_i c2; simp [c2] at h
        · rename_i c2
          simp only [c2, if_false] at h
          split
          · rename_i c3; simp [c3] at h
          · rename_i c3
            simp only [c3, if_false] at h
            exact ih h
      | none =>
        simp only at h ⊢
        split at h
        · cases h
        · rename_i g hg
          rw [checkMux_order h1 h2 hg]
          simp only
          split
          · rename_i c2; simp [c2] at h
          · rename_i c2
            simp only [c2, if_false] at h
            split
            · rename_i c3; simp [c3] at h
            · rename_i c3
              simp only [c3, if_false] at h
              exact ih h

/-- **Acceptance and the reported gas state do not depend on the iteration order of the Go
    map `parity`** (only the error CLASS of a rejected transaction can). -/
theorem order_irrelevant {ctx : Ctx} {o1 o2 : PMap → PMap} {tx : Tx} {g : Gas} (h1 : IsOrder o1) (h2 : IsOrder o2)
    (h : validateTx ctx o1 tx = .ok g) : validateTx ctx o2 tx = .ok g := by
  unfold validateTx at h ⊢
  split
  · rename_i c; simp [c] at h
  rename_i c1
  simp only [c1, if_false] at h
  split
  · rename_i c; simp [c] at h
  rename_i c2
  simp only [c2, if_false] at h
  split
  · rename_i c; simp [c] at h
  rename_i c3
  simp only [c3, if_false] at h
  split
  · rename_i c; simp [c] at h
  rename_i c4
  rw [if_neg c4] at h
  split at h
  · cases h
  · rename_i st hst
    rw [checkResults_order h1 h2 hst]
    exact h

/-! ### non-coinbase transactions: the property as stated -/

theorem filter_noCoinbase {tx : Tx} (h : NoCoinbase tx) :
    tx.inputs.map (muxSource tx.outputs) = (tx.inputs.filter (fun i => i.kind ≠ .coinbase)).map (fun i => (i.asset, i.amount)) := by
  have e : tx.inputs.filter (fun i => i.kind ≠ .coinbase) = tx.inputs := by
    rw [List.filter_eq_self]; intro i hi; simpa using h i hi
  rw [e]
  apply List.map_congr_left
  intro i hi
  simp [muxSource, h i hi]

theorem btmIn_eq (l : List Input) :
    btmIn l = sumOf btm ((l.filter (fun i => i.kind ≠ .coinbase)).map (fun i => (i.asset, i.amount))) := by
  induction l with
  | nil => rfl
  | cons i t ih =>
    by_cases c : i.kind = .coinbase
    · simp [btmIn, c, ih]
    · by_cases a : i.asset = btm
      · simp [btmIn, c, a, ih, sumOf]
      · simp [btmIn, c, a, ih, sumOf]

theorem btmOut_eq (l : List Output) : btmOut l = sumOf btm (l.map muxDest) := by
  induction l with
  | nil => rfl
  | cons o t ih =>
    by_cases a : o.asset = btm
    · simp [btmOut, a, ih, sumOf, muxDest]
    · simp [btmOut, a, ih, sumOf, muxDest]

/-- **C01 for every transaction without a coinbase input that reached the mux**: every
    non-BTM asset balances exactly (true sums), BTM in ≥ BTM out, the validator's fee
    `BTMValue` is exactly the difference, and `TxData.Fee()` (with its unchecked uint64 sums)
    returns the same number. -/
theorem validate_conserves {ctx : Ctx} {order : PMap → PMap} {tx : Tx} {g : Gas} (ho : IsOrder order)
    (h : validateTx ctx order tx = .ok g) (hnc : NoCoinbase tx) (hne : tx.outputs ≠ []) :
    (∀ a, a ≠ btm → totalIn a tx = totalOut a tx) ∧
    totalOut btm tx ≤ totalIn btm tx ∧
    g.btmValue = totalIn btm tx - totalOut btm tx ∧
    fee tx = g.btmValue ∧
    totalIn btm tx ≤ maxInt64 := by
  obtain ⟨m1, m2, m3, m4, _⟩ := mux_balance ho (validateTx_ok_mux h hne)
  have es : ∀ a, srcTotal a tx = totalIn a tx := by
    intro a; unfold srcTotal totalIn; rw [filter_noCoinbase hnc]
  simp only [es] at m1 m2 m3 m4
  refine ⟨m1, m2, m3, ?_, m4 btm⟩
  have hi : btmIn tx.inputs = totalIn btm tx := btmIn_eq _
  have ho' : btmOut tx.outputs = totalOut btm tx := btmOut_eq _
  have hmax := m4 btm
  rw [fee_eq tx (by rw [hi]; unfold maxInt64 at hmax; omega) (by rw [hi, ho']; exact m2), hi, ho', m3]

/-- the same with the hypothesis the node actually guarantees (ValidateBlockHeader and the
    mempool only ever pass blocks of version 1) instead of "has outputs" -/
theorem validate_conserves_v1 {ctx : Ctx} {order : PMap → PMap} {tx : Tx} {g : Gas} (ho : IsOrder order)
    (h : validateTx ctx order tx = .ok g) (hnc : NoCoinbase tx) (hv : ctx.blockVersion = 1) :
    (∀ a, a ≠ btm → totalIn a tx = totalOut a tx) ∧
    totalOut btm tx ≤ totalIn btm tx ∧
    g.btmValue = totalIn btm tx - totalOut btm tx ∧
    fee tx = g.btmValue ∧
    totalIn btm tx ≤ maxInt64 := by
  apply validate_conserves ho h hnc
  intro he
  unfold validateTx at h
  split at h
  · cases h
  rename_i h1
  split at h
  · cases h
  split at h
  · cases h
  split at h
  · cases h
  split at h
  · cases h
  split at h
  · cases h
  · rename_i h6
    apply h6
    have : tx.version = 1 := by
      by_contra c; exact h1 ⟨hv, c⟩
    exact ⟨this, by simp [he]⟩

example : validateTx ⟨1, 100, false⟩ btmLast
    ⟨1, 200, 0, [⟨.spend, 0, 1000000, true, 10, 0, 0⟩, ⟨.issue, 3, 7, true, 10, 0, 1⟩],
      [⟨.original, 0, 400000, 0⟩, ⟨.retire, 3, 7, 0⟩]⟩ = .ok ⟨600000, 2780, 220, 200⟩ := by decide

/-! ### pure coinbase transactions -/

def sumAll : List Output → Nat
  | [] => 0
  | o :: t => o.amount + sumAll t

theorem coinbaseTotal_eq (l : List Output) : coinbaseTotal l = sumAll l % 2 ^ 64 := by
  induction l with
  | nil => rfl
  | cons o t ih => simp only [coinbaseTotal, sumAll, ih]; omega

theorem sumOf_all_btm {l : List Output} (h : ∀ o ∈ l, o.asset = btm) : sumOf btm (l.map muxDest) = sumAll l := by
  induction l with
  | nil => rfl
  | cons o t ih =>
    have := h o (by simp)
    simp [sumOf, muxDest, sumAll, this, ih (fun o ho => h o (List.mem_cons_of_mem _ ho))]

/-- A transaction whose only input is a coinbase: if accepted, all its outputs are BTM, their
    TRUE sum did not wrap (`mapCoinbaseInput` adds in uint64) and is at most MaxInt64, and both
    the validator's fee and `Fee()` are 0: it creates exactly the listed outputs. -/
theorem coinbase_tx_exact {ctx : Ctx} {order : PMap → PMap} {tx : Tx} {g : Gas} {i : Input} (ho : IsOrder order)
    (h : validateTx ctx order tx = .ok g) (hi : tx.inputs = [i]) (hk : i.kind = .coinbase) (hne : tx.outputs ≠ []) :
    (∀ o ∈ tx.outputs, o.asset = btm) ∧ coinbaseTotal tx.outputs = sumAll tx.outputs ∧
    sumAll tx.outputs ≤ maxInt64 ∧ g.btmValue = 0 ∧ fee tx = 0 := by
  obtain ⟨_, m2, m3, m4, m5⟩ := mux_balance ho (validateTx_ok_mux h hne)
  unfold srcTotal at m2 m3 m4
  unfold totalOut at m2 m3
  simp only [hi, List.map_cons, List.map_nil, muxSource, hk, if_true] at m2 m3 m4 m5
  have hall : ∀ o ∈ tx.outputs, o.asset = btm := by
    intro o ho'; simpa using m5 o ho'
  have hD := sumOf_all_btm hall
  have hS : sumOf btm [(btm, coinbaseTotal tx.outputs)] = coinbaseTotal tx.outputs := by simp [sumOf]
  rw [hD, hS] at m2 m3
  have hT := coinbaseTotal_eq tx.outputs
  have hmod : sumAll tx.outputs % 2 ^ 64 ≤ sumAll tx.outputs := Nat.mod_le _ _
  have heq : coinbaseTotal tx.outputs = sumAll tx.outputs := by omega
  have hmax := m4 btm; rw [hS] at hmax
  refine ⟨hall, heq, by omega, by omega, ?_⟩
  unfold fee
  have : feeIn tx.inputs 0 = 0 := by simp [hi, feeIn, hk]
  rw [this]; simp

example : validateTx ⟨1, 101, true⟩ btmLast
    ⟨1, 120, 0, [⟨.coinbase, 0, 0, true, 0, 4, 0⟩], [⟨.original, 0, 0, 0⟩, ⟨.original, 0, 570776255, 0⟩]⟩
    = .ok ⟨0, 0, 0, 0⟩ := by decide

/-! ### completeness of the balance stage (no false rejections) -/

theorem wrapI64_range (x : Int) : inI 64 (wrapI 64 x) := by
  rw [inI64_iff]; unfold wrapI
  simp only [Nat.reduceSub, Int.reducePow]
  omega

/-- **No false rejection by the balance logic**: if no source total exceeds MaxInt64, every
    output amount is ≤ MaxInt64 and has a source of its asset, every non-BTM asset balances and
    BTM sources cover BTM destinations, then the three loops of `case *bc.Mux` (checked adds,
    checked subtractions, parity / setGas) all succeed — for every iteration order — and
    report `BTMValue` = BTM in − BTM out. (What can still reject the transaction are the
    input programs and the gas budget, which are inputs of the model.) -/
theorem balance_stage_complete {order : PMap → PMap} (ho : IsOrder order) (tx : Tx)
    (hsrc : ∀ a, srcTotal a tx ≤ maxInt64)
    (hout : ∀ o ∈ tx.outputs, o.amount ≤ maxInt64 ∧ o.asset ∈ (tx.inputs.map (muxSource tx.outputs)).map Prod.fst)
    (hbal : ∀ a, a ≠ btm → srcTotal a tx = totalOut a tx) (hbtm : totalOut btm tx ≤ srcTotal btm tx) :
    ∃ m1 m2 g, addSources [] (tx.inputs.map (muxSource tx.outputs)) = .ok m1 ∧
      subDests m1 (tx.outputs.map muxDest) = .ok m2 ∧
      parityLoop (wrapI 64 tx.size) Gas.zero (order m2) = .ok g ∧
      g.btmValue = srcTotal btm tx - totalOut btm tx := by
  obtain ⟨m1, h1⟩ := addSources_complete (tx.inputs.map (muxSource tx.outputs)) [] inRange_nil nonNeg_nil (by
    intro a
    have := hsrc a
    unfold srcTotal maxInt64 at this
    simp only [pget, Option.getD_none]; omega)
  obtain ⟨a1, a2, a3, a4, _⟩ := addSources_spec h1 inRange_nil (by simp [keys])
  have hS : ∀ a, ((pget m1 a).getD 0 : Int) = (srcTotal a tx : Nat) := by
    intro a; have := a3 a; simp [pget] at this; rw [this]; rfl
  obtain ⟨m2, h2⟩ := subDests_complete (tx.outputs.map muxDest) m1 a1 (by
    intro p hp
    obtain ⟨o, ho', rfl⟩ := List.mem_map.mp hp
    refine ⟨(hout o ho').1, ?_⟩
    rw [a4]; exact Or.inr (hout o ho').2) (by
    intro a
    rw [hS a]
    by_cases e : a = btm
    · subst e; exact_mod_cast hbtm
    · have := hbal a e; unfold totalOut at this; rw [this])
  obtain ⟨b1, b2, b3, _, _⟩ := subDests_spec h2 a1 a2
  have hval : ∀ a, ((pget m2 a).getD 0 : Int) = (srcTotal a tx : Int) - (totalOut a tx : Int) := by
    intro a; rw [b3 a, hS a]; rfl
  have hperm := ho m2
  have hmem : ∀ p ∈ order m2, (p.1 = btm → 0 ≤ p.2) ∧ (p.1 ≠ btm → p.2 = 0) := by
    intro p hp
    obtain ⟨a, v⟩ := p
    have hg := mem_pget b2 (hperm.subset hp)
    have hv := hval a; rw [hg] at hv; simp only [Option.getD_some] at hv
    constructor
    · intro e; simp only at e; subst e; simp only; omega
    · intro e; simp only at e ⊢; have := hbal a e; omega
  obtain ⟨g, hg⟩ := parityLoop_complete (wrapI64_range tx.size) (order m2) Gas.zero hmem
  refine ⟨m1, m2, g, h1, h2, hg, ?_⟩
  -- the reported value, from the soundness lemma
  have hn : (keys (order m2)).Nodup := (List.Perm.nodup_iff (hperm.map Prod.fst)).mpr b2
  have hr : InRange' (order m2) := fun p hp => inRange'_of b1 b2 p (hperm.subset hp)
  obtain ⟨_, c2, c3⟩ := parityLoop_ok hg hr
  cases e : pget m2 btm with
  | none =>
    have hall : ∀ p ∈ order m2, p.1 ≠ btm := by
      intro p hp c
      have : btm ∈ keys m2 := c ▸ List.mem_map.mpr ⟨p, hperm.subset hp, rfl⟩
      rw [pget_none_iff] at e; exact e this
    rw [c2 hall]
    have hv := hval btm; rw [e] at hv; simp only [Option.getD_none] at hv
    show 0 = _
    omega
  | some v =>
    have hm : (btm, v) ∈ order m2 := hperm.symm.subset (pget_mem e)
    rw [c3 v hm hn]
    have hv := hval btm; rw [e] at hv; simp only [Option.getD_some] at hv
    have h0 := (hmem _ hm).1 rfl
    simp only at h0
    omega

/-! ### explicit entry graphs (mapped transactions with fields changed in place) -/

/-- the three loops of the mux case over ARBITRARY source / destination value lists -/
theorem balance_core {order : PMap → PMap} (ho : IsOrder order) {srcs dsts : List (Nat × Nat)} {m1 m2 : PMap}
    {sz : Int} {g1 : Gas} (h1 : addSources [] srcs = .ok m1) (h2 : subDests m1 dsts = .ok m2)
    (h3 : parityLoop sz Gas.zero (order m2) = .ok g1) :
    (∀ a, a ≠ btm → sumOf a srcs = sumOf a dsts) ∧ sumOf btm dsts ≤ sumOf btm srcs ∧
    g1.btmValue = sumOf btm srcs - sumOf btm dsts := by
  obtain ⟨a1, a2, a3, a4, _⟩ := addSources_spec h1 inRange_nil (by simp [keys])
  obtain ⟨b1, b2, b3, b4, b5⟩ := subDests_spec h2 a1 a2
  have hperm := ho m2
  have hn : (keys (order m2)).Nodup := (List.Perm.nodup_iff (hperm.map Prod.fst)).mpr b2
  have hr : InRange' (order m2) := fun p hp => inRange'_of b1 b2 p (hperm.subset hp)
  obtain ⟨c1, c2, c3⟩ := parityLoop_ok h3 hr
  have hval : ∀ a, ((pget m2 a).getD 0 : Int) = (sumOf a srcs : Int) - (sumOf a dsts : Int) := by
    intro a
    have := b3 a; rw [a3 a] at this
    simp [pget] at this
    rw [this]
  have hnone : ∀ a, pget m2 a = none → sumOf a srcs = 0 ∧ sumOf a dsts = 0 := by
    intro a ha
    rw [pget_none_iff, b4 a] at ha
    have hs : a ∉ srcs.map Prod.fst := by
      intro c; exact ha ((a4 a).mpr (Or.inr c))
    refine ⟨sumOf_zero_of_not_mem hs, sumOf_zero_of_not_mem ?_⟩
    intro c
    obtain ⟨p, hp, e⟩ := List.mem_map.mp c
    exact ha (e ▸ (b5 p hp).1)
  refine ⟨?_, ?_, ?_⟩
  · intro a ha
    cases e : pget m2 a with
    | none => rw [(hnone a e).1, (hnone a e).2]
    | some v =>
      have hm : (a, v) ∈ order m2 := hperm.symm.subset (pget_mem e)
      have hz := (c1 _ hm).2 ha
      have := hval a; rw [e] at this; simp at this hz; omega
  · cases e : pget m2 btm with
    | none => rw [(hnone btm e).1, (hnone btm e).2]
    | some v =>
      have hm : (btm, v) ∈ order m2 := hperm.symm.subset (pget_mem e)
      have hz := (c1 _ hm).1 rfl
      have := hval btm; rw [e] at this; simp at this hz; omega
  · cases e : pget m2 btm with
    | none =>
      rw [(hnone btm e).1, (hnone btm e).2]
      have hall : ∀ p ∈ order m2, p.1 ≠ btm := by
        intro p hp c
        have : btm ∈ keys m2 := c ▸ List.mem_map.mpr ⟨p, hperm.subset hp, rfl⟩
        rw [pget_none_iff] at e; exact e this
      rw [c2 hall]; rfl
    | some v =>
      have hm : (btm, v) ∈ order m2 := hperm.symm.subset (pget_mem e)
      rw [c3 v hm hn]
      have hz := (c1 _ hm).1 rfl
      have := hval btm; rw [e] at this; simp at this hz; omega

/-- **C01 on explicit entry graphs** (`Model/TxEntries`: every value / reference / position
    field the validator compares is a field of its own — covers mapped transactions in which a
    field of an entry was changed in place). If such a graph is accepted then
    (1) the mux balances: non-BTM source totals = destination totals, BTM destinations ≤ sources,
        `BTMValue` = the difference;
    (2) every mux source is backed by an existing input entry that forwards exactly that value,
        and for spends and vetoes the CONSUMED OUTPUT holds exactly that value (`pv = wd = ms`);
    (3) every mux destination is backed by an existing result entry carrying exactly that value.
    So the value that really enters (consumed outputs) and really leaves (result entries) is
    what the balanced mux saw. Issuances are the exception: `Issuance.Value` is not compared
    with the forwarded value (F-C01c). -/
theorem entries_conserve {ctx : Ctx} {order : PMap → PMap} {tx : ETx} {g : Gas} (ho : IsOrder order)
    (h : validateE ctx order tx = .ok g) (hne : tx.outs ≠ []) :
    ((∀ a, a ≠ btm → sumOf a (tx.ins.map (·.ms)) = sumOf a (tx.outs.map (·.dv))) ∧
      sumOf btm (tx.outs.map (·.dv)) ≤ sumOf btm (tx.ins.map (·.ms)) ∧
      g.btmValue = sumOf btm (tx.ins.map (·.ms)) - sumOf btm (tx.outs.map (·.dv))) ∧
    (∀ s ∈ tx.ins, ∃ inp, tx.ins[s.msRef]? = some inp ∧ inp.wd = s.ms ∧
      ((inp.base.kind = .spend ∨ inp.base.kind = .veto) → inp.pv = s.ms)) ∧
    (∀ d ∈ tx.outs, ∃ o, tx.outs[d.dstRef]? = some o ∧ o.val = d.dv) := by
  have hm := validateE_ok_mux h hne
  unfold checkMuxE at hm
  split at hm
  · cases hm
  rename_i m1 h1
  split at hm
  · cases hm
  rename_i m2 h2
  split at hm
  · cases hm
  rename_i g1 h3
  split at hm
  · cases hm
  rename_i hd
  split at hm
  · cases hm
  rename_i g2 hs
  obtain ⟨hsrc, hb2⟩ := checkSourcesE_ok tx.ins 0 g1 g2 [] hs (by simp)
  have hdst := checkDestsE_ok tx.outs 0 (by
    cases e : checkDestsE tx 0 tx.outs with
    | error x => rw [e] at hd; cases hd
    | ok u => cases u; rfl)
  obtain ⟨c1, c2, c3⟩ := balance_core ho h1 h2 h3
  refine ⟨⟨c1, c2, ?_⟩, ?_, hdst⟩
  · rw [chargeStorageGas_btm hm, hb2, c3]
  · intro s hs'
    obtain ⟨inp, hi, hw, hp⟩ := hsrc s hs'
    exact ⟨inp, hi, hw, fun hk => by rw [hp hk]; exact hw⟩

/-- the seeded-change witness as a theorem: a veto (or spend) whose consumed output holds a
    value different from what reaches the mux is never accepted -/
theorem consumed_value_checked {ctx : Ctx} {order : PMap → PMap} {tx : ETx} {g : Gas} (ho : IsOrder order)
    (h : validateE ctx order tx = .ok g) (hne : tx.outs ≠ []) (i : Nat) (s inp : EIn)
    (hs : tx.ins[i]? = some s) (hi : tx.ins[s.msRef]? = some inp)
    (hk : inp.base.kind = .spend ∨ inp.base.kind = .veto) : inp.pv = s.ms := by
  obtain ⟨_, hsrc, _⟩ := entries_conserve ho h hne
  obtain ⟨inp', hi', _, hp⟩ := hsrc s (List.mem_of_getElem? hs)
  rw [hi] at hi'; cases hi'
  exact hp hk

/-- tests: the MapTx graph of a valid veto transaction is accepted; with the consumed vote
    output's value changed in place (the C01-sub4 witness) it is rejected with ErrMismatchedValue;
    with an ISSUANCE's committed amount changed it is still accepted (F-C01c) -/
example :
    let tx : Tx := ⟨1, 200, 0, [⟨.veto, 0, 100000000, true, 10, 64, 0⟩], [⟨.original, 0, 90000000, 0⟩]⟩
    validateE ⟨1, 100, false⟩ btmLast (ofTx tx) = validateTx ⟨1, 100, false⟩ btmLast tx ∧
    validateE ⟨1, 100, false⟩ btmLast (applyMut (ofTx tx) (.pv 0 (0, 1000))) = .error .mismatchedvalue := by decide

example :
    let tx : Tx := ⟨1, 300, 0, [⟨.issue, 1, 500, true, 10, 0, 0⟩, ⟨.spend, 0, 1000000, true, 10, 0, 1⟩], [⟨.original, 1, 500, 0⟩]⟩
    (validateE ⟨1, 100, false⟩ btmLast (applyMut (ofTx tx) (.pv 0 (1, 7)))).isOk = true := by decide

/-! ### the full statement and where the unchanged code breaks it -/

/-- The property at full strength, for EVERY accepted transaction in EVERY context (the BTM
    in ≥ out clause is asked only of transactions without a coinbase input: a coinbase
    creates BTM by design). -/
def c01_full : Prop :=
  ∀ (ctx : Ctx) (order : PMap → PMap) (tx : Tx) (g : Gas), IsOrder order → validateTx ctx order tx = .ok g →
    (∀ a, a ≠ btm → totalIn a tx = totalOut a tx) ∧ fee tx = g.btmValue ∧
    (NoCoinbase tx → totalOut btm tx ≤ totalIn btm tx ∧ g.btmValue = totalIn btm tx - totalOut btm tx)

theorem isOrder_btmLast : IsOrder btmLast := by
  intro m
  unfold btmLast
  have := (List.filter_append_perm (fun p : Nat × Int => p.1 = btm) m)
  refine List.Perm.trans ?_ this
  have e : (fun p : Nat × Int => decide (p.1 ≠ btm)) = (fun p => !(decide (p.1 = btm))) := by
    funext p; simp
  rw [e]
  exact List.perm_append_comm

theorem isOrder_btmFirst : IsOrder btmFirst := by
  intro m
  unfold btmFirst
  have := (List.filter_append_perm (fun p : Nat × Int => p.1 = btm) m)
  have e : (fun p : Nat × Int => decide (p.1 ≠ btm)) = (fun p => !(decide (p.1 = btm))) := by
    funext p; simp
  rw [e]
  exact this

/-- F-C01a (reproduced on the real code, corpus/C01/known.txt line 1): a transaction with a
    coinbase input AND a spend is accepted with BTMValue = 1000000 while Fee() = 999950. -/
theorem c01_full_refuted_mixed_coinbase : ¬ c01_full := by
  intro h
  have := (h ⟨1, 101, true⟩ btmLast
    ⟨1, 150, 0, [⟨.coinbase, 0, 0, true, 0, 3, 0⟩, ⟨.spend, 0, 1000000, true, 10, 0, 1⟩], [⟨.original, 0, 50, 0⟩]⟩
    ⟨1000000, 4990, 10, 0⟩ isOrder_btmLast (by decide)).2.1
  revert this; decide

/-- F-C01b (reproduced on the real code, corpus/C01/known.txt line 2): with block version ≠ 1
    a version-2 transaction without outputs is accepted although 5 units of asset 1 vanish. -/
theorem c01_full_refuted_no_results : ¬ c01_full := by
  intro h
  have := (h ⟨2, 100, false⟩ btmLast ⟨2, 80, 0, [⟨.spend, 1, 5, true, 10, 0, 0⟩], []⟩ Gas.zero isOrder_btmLast (by decide)).1 1 (by decide)
  revert this; decide

/-- The partial theorem: `c01_full` holds for every accepted transaction that has at least
    one output and whose inputs are either all non-coinbase or a single coinbase — exactly
    the two excluded classes are F-C01a (coinbase mixed with other inputs) and F-C01b (no
    results, only possible when block version ≠ 1). -/
theorem c01_partial (ctx : Ctx) (order : PMap → PMap) (tx : Tx) (g : Gas) (ho : IsOrder order)
    (h : validateTx ctx order tx = .ok g) (hne : tx.outputs ≠ [])
    (hshape : NoCoinbase tx ∨ ∃ i, tx.inputs = [i] ∧ i.kind = .coinbase) :
    (∀ a, a ≠ btm → totalIn a tx = totalOut a tx) ∧ fee tx = g.btmValue ∧
    (NoCoinbase tx → totalOut btm tx ≤ totalIn btm tx ∧ g.btmValue = totalIn btm tx - totalOut btm tx) := by
  rcases hshape with hnc | ⟨i, hi, hk⟩
  · obtain ⟨c1, c2, c3, c4, _⟩ := validate_conserves ho h hnc hne
    exact ⟨c1, c4, fun _ => ⟨c2, c3⟩⟩
  · obtain ⟨d1, _, _, d4, d5⟩ := coinbase_tx_exact ho h hi hk hne
    refine ⟨?_, by rw [d4, d5], ?_⟩
    · intro a ha
      have hin : totalIn a tx = 0 := by simp [totalIn, hi, hk, sumOf]
      have hout : totalOut a tx = 0 := by
        unfold totalOut
        apply sumOf_zero_of_not_mem
        intro c
        obtain ⟨p, hp, e⟩ := List.mem_map.mp c
        obtain ⟨o, ho', e'⟩ := List.mem_map.mp hp
        subst e'; simp [muxDest] at e; exact ha (e ▸ d1 o ho')
      rw [hin, hout]
    · intro hnc; exact absurd hk (hnc i (by simp [hi]))

end BytomModel.Props.C01
