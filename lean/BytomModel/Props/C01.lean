import BytomModel.Model.TxValidate
namespace BytomModel.Props.C01
open BytomModel.Model.TxValidate
theorem stub : fee ⟨1, 1, 0, [], []⟩ = 0 := by decide
end BytomModel.Props.C01
