/-
C16 — Finality is safe and irreversible.

(a) Protocol layer (Lemmas/CasperFFG, Mathlib `Finset`): Casper-FFG accountable safety over abstract
    checkpoints and votes with an ARBITRARY finite validator set: two conflicting finalized
    checkpoints ⇒ strictly more than one third of all validators are slashable.  The side condition
    "the source of a justifying link is an ancestor of its target" is necessary
    (`accountable_safety_needs_ancestry`) — the node does NOT check it (observation O16-1, notes/C16.md).
(b) Node layer (`BytomModel.Node`, all event sequences without restart): the tree root (= last
    finalized checkpoint, `Casper.LastFinalized`) only ever changes to a node of the current tree and so
    only to descendants of itself; `bestChain` always returns a checkpoint of the tree rooted at the last
    finalized checkpoint, hence a descendant of it; statuses never move backwards; a successful
    `tryReorganize` to the fork-choice result leaves the finalized block an ancestor of the best block.
    Across a restart the root can fall back (finding F30): refuted with the witness, partial stated.
Assumptions as in Props/C17 (`RunOK U evs`, `2 ≤ cfg.epoch`).
-/
import BytomModel.Lemmas.CasperC16
import BytomModel.Lemmas.CasperRun
import BytomModel.Lemmas.CasperFFG

namespace BytomModel.Props.C16
open BytomModel.Node

deriving instance DecidableEq for Header
deriving instance DecidableEq for CkptRec

/-! ### (a) protocol layer -/
section Protocol
open BytomModel.Lemmas.CasperFFG
variable {V C : Type}

open Classical in
/-- **Accountable safety.** If two checkpoints neither of which is an ancestor of the other are both
    finalized, then strictly more than a third of ALL validators (`3·k > n`, any finite `n`) cast two
    votes that are slashable together (same target height & different targets, or surround). -/
theorem accountable_safety [Fintype V] (K : Checkpoints C) (votes : Set (Vote V C)) {a b : C}
    (ha : Finalized K votes a) (hb : Finalized K votes b) (hc : K.conflicting a b) :
    3 * (Finset.univ.filter (Slashable K votes)).card > Fintype.card V :=
  BytomModel.Lemmas.CasperFFG.accountable_safety K votes ha hb hc

open Classical in
/-- with at most a third of the validators slashable, finalized checkpoints lie on one chain -/
theorem no_conflicting_finalized [Fintype V] (K : Checkpoints C) (votes : Set (Vote V C)) {a b : C}
    (hs : 3 * (Finset.univ.filter (Slashable K votes)).card ≤ Fintype.card V)
    (ha : Finalized K votes a) (hb : Finalized K votes b) : K.anc a b ∨ K.anc b a :=
  BytomModel.Lemmas.CasperFFG.no_conflicting_finalized K votes hs ha hb

/-- Without the requirement that the source of a justifying link is an ancestor of its target,
    accountable safety fails: one validator, votes g→a1, a1→a2, a2→b3 (cross-branch), b3→b4 finalize the
    conflicting a1 and b3 and violate neither commandment.  (The node admits such links: O16-1.) -/
theorem accountable_safety_needs_ancestry :
    ∃ (K : Checkpoints (Fin 7)) (votes : Set (Vote (Fin 1) (Fin 7))) (a b : Fin 7),
      FinalizedNoAnc K votes a ∧ FinalizedNoAnc K votes b ∧ K.conflicting a b ∧ ∀ v, ¬ Slashable K votes v :=
  BytomModel.Lemmas.CasperFFG.accountable_safety_needs_ancestry
end Protocol

/-! ### (b) node layer -/

/-- `Casper.bestChain` returns a checkpoint of the tree (for every state whatsoever) -/
theorem best_in_tree (s : State) : ∃ c ∈ s.tree.flatten, c.hash = s.bestChain :=
  ⟨_, Tree.bestNode_mem s.rankOf _ s.tree, rfl⟩

/-- the structural invariant holds after every run without restart -/
theorem inv16_run (U : Universe) (cfg : Config) (genesis : Header) (evs : List Event)
    (he : 2 ≤ cfg.epoch) (hg : genesis.id = U.g) (h0 : genesis.height = 0) (hr : RunOK U evs) :
    Inv16 U (run (State.init cfg genesis) evs) :=
  run_invariant U (presented evs) (fun _ _ hi m => Micro.preserves_Inv16 hi m) cfg genesis hg h0
    (Inv16_init U cfg genesis he hg h0) evs hr.events_ok

/-- **Root step.** One step of the node changes the root of the checkpoint tree only in `setFinalized`,
    to a node found in the current tree (whose children it keeps), which is a descendant of the old
    root in the block universe. -/
theorem root_only_changes_to_tree_node {U : Universe} {Vp : Nat → Nat → Nat → Prop} {s s' : State}
    (hi : Inv16 U s) (m : Micro U Vp s s') :
    (s'.tree.ckpt.hash = s.tree.ckpt.hash ∨
      ∃ r, s.tree.find (byHash s'.tree.ckpt.hash) = some r ∧ s'.tree.ckpt.status = .finalized ∧
        s'.tree.children = r.children) ∧
    UAnc U s.tree.ckpt.hash s'.tree.ckpt.hash :=
  Micro.root_step hi m

/-- **Finality is irreversible (no restart).** Along any run without restart the last finalized
    checkpoint at a later time is the earlier one or a descendant of it: for every split of the run. -/
theorem finalized_only_moves_to_descendants (U : Universe) (cfg : Config) (genesis : Header)
    (evs1 evs2 : List Event) (he : 2 ≤ cfg.epoch) (hg : genesis.id = U.g) (h0 : genesis.height = 0)
    (hr : RunOK U (evs1 ++ evs2)) :
    UAnc U (run (State.init cfg genesis) evs1).tree.ckpt.hash
      (run (State.init cfg genesis) (evs1 ++ evs2)).tree.ckpt.hash := by
  have h1 := inv16_run U cfg genesis evs1 he hg h0 hr.append_left
  have m := run_suffix_refines_micro U cfg genesis evs1 evs2 hg h0 hr
  have := MicroStar.invariant (U := U) (Vp := presented (evs1 ++ evs2))
    (I := fun s => Inv16 U s ∧ UAnc U (run (State.init cfg genesis) evs1).tree.ckpt.hash s.tree.ckpt.hash)
    (fun s s' hs hm => ⟨Micro.preserves_Inv16 hs.1 hm, hs.2.trans (Micro.root_step hs.1 hm).2⟩)
    m ⟨h1, UAnc.refl _ _⟩
  exact this.2

/-- **Two finalized checkpoints of one node are never conflicting (no restart).** Any two checkpoints
    that were the last finalized one at two moments of a run lie on one chain. -/
theorem finalized_on_one_chain (U : Universe) (cfg : Config) (genesis : Header)
    (evs1 evs2 : List Event) (he : 2 ≤ cfg.epoch) (hg : genesis.id = U.g) (h0 : genesis.height = 0)
    (hr : RunOK U (evs1 ++ evs2)) :
    let f1 := (run (State.init cfg genesis) evs1).tree.ckpt.hash
    let f2 := (run (State.init cfg genesis) (evs1 ++ evs2)).tree.ckpt.hash
    UAnc U f1 f2 ∨ UAnc U f2 f1 :=
  Or.inl (finalized_only_moves_to_descendants U cfg genesis evs1 evs2 he hg h0 hr)

/-- **Fork choice extends the finalized checkpoint.** After any run without restart `bestChain` is a
    checkpoint of the tree rooted at the last finalized checkpoint and descends from it. -/
theorem best_descends_from_finalized (U : Universe) (cfg : Config) (genesis : Header) (evs : List Event)
    (he : 2 ≤ cfg.epoch) (hg : genesis.id = U.g) (h0 : genesis.height = 0) (hr : RunOK U evs) :
    let s := run (State.init cfg genesis) evs
    (∃ c ∈ s.tree.flatten, c.hash = s.bestChain) ∧ UAnc U s.tree.ckpt.hash s.bestChain := by
  intro s
  obtain ⟨c, hc, hh⟩ := best_in_tree s
  exact ⟨⟨c, hc, hh⟩, hh ▸ (inv16_run U cfg genesis evs he hg h0 hr).2.root c hc⟩

/-- **Reorganisation keeps the finalized block.** After any run without restart, a successful
    `tryReorganize` to the fork-choice result (what `processBlock` and the rollback requested by
    `AuthVerification` do) leaves the casper tree alone and makes a descendant of the last finalized
    checkpoint the best block. -/
theorem reorg_keeps_finalized (U : Universe) (cfg : Config) (genesis : Header) (evs : List Event)
    (he : 2 ≤ cfg.epoch) (hg : genesis.id = U.g) (h0 : genesis.height = 0) (hr : RunOK U evs)
    (s' : State) (hok : (run (State.init cfg genesis) evs).tryReorganize (run (State.init cfg genesis) evs).bestChain = (s', true)) :
    s'.tree = (run (State.init cfg genesis) evs).tree ∧ UAnc U s'.tree.ckpt.hash s'.best := by
  obtain ⟨h1, h2⟩ := tryReorganize_ok hok
  refine ⟨h2, ?_⟩
  rw [h1, h2]
  exact (best_descends_from_finalized U cfg genesis evs he hg h0 hr).2

/-- **Statuses only move forward.** In one step every checkpoint of the new tree is a checkpoint of the
    old tree with the same or a later status (growing < unjustified < justified < finalized; same hash
    unless it was still growing), or a brand-new growing checkpoint. -/
theorem status_only_moves_forward {U : Universe} {Vp : Nat → Nat → Nat → Prop} {s s' : State}
    (hb : Base U s) (m : Micro U Vp s s') :
    ∀ c' ∈ s'.tree.flatten,
      (∃ c ∈ s.tree.flatten, c.status.rank ≤ c'.status.rank ∧ (c.hash = c'.hash ∨ c.status = .growing)) ∨
      (c'.status = .growing ∧ c'.sup = []) :=
  Micro.status_step hb m

/-- the steps the two step theorems talk about are exactly what runs are made of -/
theorem run_is_micro_steps (U : Universe) (cfg : Config) (genesis : Header) (evs : List Event)
    (hg : genesis.id = U.g) (h0 : genesis.height = 0) (hr : RunOK U evs) :
    MicroStar U (presented evs) (State.init cfg genesis) (run (State.init cfg genesis) evs) :=
  run_refines_micro U cfg genesis evs hg h0 hr

/-! ### across restarts: refuted (finding F30), and the partial statement -/

/-- the full property: `finalized_only_moves_to_descendants` for runs that may contain restarts -/
def c16_across_restart : Prop :=
  ∀ (U : Universe) (cfg : Config) (genesis : Header) (evs1 evs2 : List Event),
    2 ≤ cfg.epoch → genesis.id = U.g → genesis.height = 0 → BlocksOK U (evs1 ++ evs2) →
    UAnc U (run (State.init cfg genesis) evs1).tree.ckpt.hash
      (run (State.init cfg genesis) (evs1 ++ evs2)).tree.ckpt.hash

namespace Witness
/-! one validator, epoch 2, chain b1 … b4; the votes b0→b2 and b2→b4 finalize b2 without any block
    arriving, so the chain status (which seeds the root on restart) still names b0: after `restart`
    the last finalized checkpoint is b0 again.  corpus/node/pcasper-findings.txt (F30). -/
def U : Universe := { g := 0, parent := fun i => i - 1, height := fun i => i, height_g := rfl, height_step := fun i h => by omega }
def g : Header := { id := 0, parent := 4294967295, height := 0, slot := 0, rank := 0, sup := [] }
def cfg : Config := { epoch := 2, nVal := 1, me := none }
def blk (i : Nat) : Header := { id := i, parent := i - 1, height := i, slot := i, rank := 0, sup := [] }
def evs1 : List Event := [.deliver (blk 1), .deliver (blk 2), .deliver (blk 3), .deliver (blk 4), .vote 0 0 2 true, .vote 0 2 4 true]
def pre : State := run (State.init cfg g) evs1

theorem pre_root : pre.tree.ckpt.hash = 2 := by decide +kernel

def rec0 : CkptRec := { hash := 0, height := 0, parentHash := 0, status := .finalized }
def rec2 : CkptRec := { hash := 2, height := 2, parentHash := 0, status := .finalized }
def rec4 : CkptRec := { hash := 4, height := 4, parentHash := 2, status := .justified }

theorem mergeSort_recs (le : CkptRec → CkptRec → Bool) (h20 : le rec2 rec4 = true)
    (h02 : le rec2 rec0 = false) : [rec2, rec4, rec0].mergeSort le = [rec0, rec2, rec4] := by
  simp [List.mergeSort, h20, h02]

/-- after the restart the root is b0 again -/
theorem restart_root : pre.restart.map (fun s => s.tree.ckpt.hash) = some 0 := by
  unfold State.restart
  have h1 : pre.header pre.best = some { blk 4 with sup := [{ src := 2, srcHeight := 2, sigs := [{ slot := 0, valid := true }] }] } := by
    decide +kernel
  have h2 : pre.header pre.statusFin = some g := by decide +kernel
  rw [h1, h2]
  have h3 : (pre.ckpts.filter (fun r =>
      (({ hash := pre.statusFin, height := g.height, parentHash := 0, status := .finalized } : CkptRec).height < r.height ||
        (({ hash := pre.statusFin, height := g.height, parentHash := 0, status := .finalized } : CkptRec).height == r.height &&
          decide (pre.rankOf ({ hash := pre.statusFin, height := g.height, parentHash := 0, status := .finalized } : CkptRec).hash ≤ pre.rankOf r.hash))))) =
      [rec2, rec4, rec0] := by
    decide +kernel
  simp only [h3]
  rw [mergeSort_recs _ (by decide +kernel) (by decide +kernel)]
  decide +kernel
end Witness

theorem run_restart (s : State) :
    run s [.restart] = match s.restart with | some s' => s' | none => s := rfl

theorem ancN_witness (n : Nat) : ancN Witness.U n 0 = 0 := by
  induction n with
  | zero => rfl
  | succ n ih => simpa [ancN, Witness.U] using ih

/-- **F30.** A finalization caused by verification messages alone is forgotten by a restart: the last
    finalized checkpoint goes from b2 back to b0, which is not a descendant of b2. -/
theorem c16_across_restart_refuted : ¬ c16_across_restart := by
  intro h
  have hb : BlocksOK Witness.U (Witness.evs1 ++ [.restart]) := by
    intro e he
    simp only [Witness.evs1, List.cons_append, List.nil_append, List.mem_cons, List.not_mem_nil, or_false] at he
    rcases he with rfl | rfl | rfl | rfl | rfl | rfl | rfl
    · exact ⟨by decide, rfl, rfl⟩
    · exact ⟨by decide, rfl, rfl⟩
    · exact ⟨by decide, rfl, rfl⟩
    · exact ⟨by decide, rfl, rfl⟩
    · trivial
    · trivial
    · trivial
  have h' := h Witness.U Witness.cfg Witness.g Witness.evs1 [.restart] (by decide) rfl rfl hb
  rw [run_append] at h'
  have hdef : run (State.init Witness.cfg Witness.g) Witness.evs1 = Witness.pre := rfl
  rw [hdef, run_restart] at h'
  have hroot : (match Witness.pre.restart with | some s' => s' | none => Witness.pre).tree.ckpt.hash = 0 := by
    have := Witness.restart_root
    cases hr : Witness.pre.restart with
    | none => rw [hr] at this; cases this
    | some s' => rw [hr] at this; exact Option.some.inj this
  rw [hroot, Witness.pre_root] at h'
  obtain ⟨n, hn⟩ := h'
  rw [ancN_witness] at hn
  cases hn

/-- **Partial.** Without restart events (exactly the class excluded by F30) the property holds. -/
theorem c16_partial (U : Universe) (cfg : Config) (genesis : Header) (evs1 evs2 : List Event)
    (he : 2 ≤ cfg.epoch) (hg : genesis.id = U.g) (h0 : genesis.height = 0) (hb : BlocksOK U (evs1 ++ evs2))
    (hnr : Event.restart ∉ evs1 ++ evs2) :
    UAnc U (run (State.init cfg genesis) evs1).tree.ckpt.hash
      (run (State.init cfg genesis) (evs1 ++ evs2)).tree.ckpt.hash :=
  finalized_only_moves_to_descendants U cfg genesis evs1 evs2 he hg h0 (RunOK.of_blocksOK hb hnr)

/-! ### non-vacuity -/

/-- the hypotheses of the run theorems hold for the witness run without its restart, and in it the
    root really moves (b0 → b2) -/
example : RunOK Witness.U Witness.evs1 := by
  intro e he
  simp only [Witness.evs1, List.mem_cons, List.not_mem_nil, or_false] at he
  rcases he with rfl | rfl | rfl | rfl | rfl | rfl
  · exact ⟨by decide, rfl, rfl⟩
  · exact ⟨by decide, rfl, rfl⟩
  · exact ⟨by decide, rfl, rfl⟩
  · exact ⟨by decide, rfl, rfl⟩
  · trivial
  · trivial

example : (State.init Witness.cfg Witness.g).tree.ckpt.hash = 0 ∧ Witness.pre.tree.ckpt.hash = 2 ∧ Witness.pre.bestChain = 4 := by
  decide +kernel

example : UAnc Witness.U 0 2 := ⟨2, rfl⟩

end BytomModel.Props.C16
