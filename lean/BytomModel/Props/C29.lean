/-
C29 — Addresses and text encodings round-trip and detect corruption.

Models: `BytomModel.Bech32` (bech32.go + the segwit address functions of address.go),
`BytomModel.Base32`, `BytomModel.Mnemonic`.  All theorems are for ALL inputs of the stated
shape (any length); finite character tables are closed by `decide` and lifted by lemmas.
-/
import BytomModel.Lemmas.Bech32
import BytomModel.Lemmas.ConvertBits
import BytomModel.Lemmas.Address
import BytomModel.Lemmas.Mnemonic
import BytomModel.Lemmas.Base32

namespace BytomModel.Props.C29
open BytomModel.Bech32 BytomModel.Lemmas.Bech32 BytomModel.Lemmas.ConvertBits BytomModel.Lemmas.Address

/-! ### the bech32 checksum -/

/-- **xor-linearity** of the checksum state update (`bech32Polymod`'s loop body). -/
theorem polymod_linear (a b v w : Nat) :
    polymodStep (a ^^^ b) (v ^^^ w) = polymodStep a v ^^^ polymodStep b w :=
  polymodStep_xor a b v w

/-- the expanded hrp of a string of bytes consists of 30-bit values (indeed ≤ 31) -/
theorem hrpExpand_lt (hrp : Bytes) (h : ∀ c ∈ hrp, c < 256) : ∀ v ∈ hrpExpand hrp, v < 2 ^ 30 := by
  intro v hv
  unfold hrpExpand at hv
  simp only [List.mem_append, List.mem_map, List.mem_singleton] at hv
  rcases hv with (⟨c, hc, rfl⟩ | rfl) | ⟨c, hc, rfl⟩
  · have := h c hc
    rw [Nat.shiftRight_eq_div_pow]; omega
  · decide
  · have e31 : (31 : Nat) = 2 ^ 5 - 1 := by decide
    rw [e31, Nat.and_two_pow_sub_one_eq_mod]; omega

/-- **The generated checksum verifies**, for every hrp and every 5-bit data of any length. -/
theorem checksum_verifies (hrp data : Bytes) (hh : ∀ c ∈ hrp, c < 256) (hd : ∀ b ∈ data, b < 32) :
    verifyChecksum hrp (data ++ checksum hrp data) = true := by
  unfold verifyChecksum
  rw [← List.append_assoc, polymod_checksum hrp data]
  · rfl
  · intro v hv
    rcases List.mem_append.mp hv with h | h
    · exact hrpExpand_lt hrp hh v h
    · have := hd v h; omega

/-- **Any single wrong symbol is detected**, at any position and for any length: if a data part
    (with its checksum) verifies, the same data with one symbol replaced by a different one
    does not. -/
theorem single_symbol_error_detected (hrp pre post : Bytes) (x x' : Nat) (hx : x < 32) (hx' : x' < 32)
    (hne : x ≠ x') (hv : verifyChecksum hrp (pre ++ x :: post) = true) :
    verifyChecksum hrp (pre ++ x' :: post) = false := by
  unfold verifyChecksum at hv ⊢
  have h1 : polymod (hrpExpand hrp ++ (pre ++ x :: post)) = 1 := by simpa using hv
  have := polymod_single_error (hrpExpand hrp ++ pre) post x x' (by omega) (by omega) hne
  rw [List.append_assoc, List.append_assoc, h1] at this
  simp only [beq_eq_false_iff_ne, ne_eq]
  exact fun h => this h.symm

/-! ### bech32 strings -/

/-- **`Bech32Decode (Bech32Encode hrp data) = (hrp, data)`** for every non-empty hrp of printable
    characters without upper-case letters and every 5-bit data, within the 90-character limit. -/
theorem bech32_decode_encode (hrp data : Bytes) (hne : hrp ≠ [])
    (hchars : ∀ c ∈ hrp, 33 ≤ c ∧ c ≤ 126 ∧ ¬ (65 ≤ c ∧ c ≤ 90))
    (hdata : ∀ b ∈ data, b < 32) (hlen : hrp.length + data.length + 7 ≤ 90) :
    ∃ s, encode hrp data = .ok s ∧ decode s = .ok (hrp, data) := by
  have hall : ∀ b ∈ data ++ checksum hrp data, b < 32 := by
    intro b hb
    rcases List.mem_append.mp hb with h | h
    · exact hdata b h
    · exact checksum_lt hrp data b h
  generalize hcs : (data ++ checksum hrp data).map (fun b => charset.getD b 0) = cs
  have hcsProp : ∀ c ∈ cs, 33 ≤ c ∧ c ≤ 126 ∧ toLower c = c ∧ c ≠ 49 := by
    intro c hc
    rw [← hcs] at hc
    obtain ⟨b, hb, rfl⟩ := List.mem_map.mp hc
    have := charset_table b (hall b hb)
    exact ⟨this.2.1, this.2.2.1, this.2.2.2.1, this.2.2.2.2⟩
  have hcslen : cs.length = data.length + 6 := by
    rw [← hcs]; simp [checksum_length]
  refine ⟨hrp ++ [49] ++ cs, ?_, ?_⟩
  · unfold encode; rw [toChars_ok _ hall, hcs]
  · have hlenS : (hrp ++ [49] ++ cs).length = hrp.length + data.length + 7 := by
      simp [hcslen]; omega
    have hpos : 0 < hrp.length := List.length_pos_iff.mpr hne
    have hrange : (hrp ++ [49] ++ cs).any (fun c => decide (c < 33 ∨ c > 126)) = false := by
      rw [List.any_eq_false]
      intro c hc
      simp only [List.mem_append, List.mem_singleton] at hc
      rcases hc with (h | rfl) | h
      · have := hchars c h; simp; omega
      · decide
      · have := hcsProp c h; simp; omega
    have hlower : (hrp ++ [49] ++ cs).map toLower = hrp ++ [49] ++ cs := by
      rw [List.map_append, List.map_append]
      congr 1
      · congr 1
        · conv => rhs; rw [← List.map_id hrp]
          apply List.map_congr_left
          intro c hc
          have := hchars c hc
          unfold toLower; rw [if_neg this.2.2]; rfl
      · conv => rhs; rw [← List.map_id cs]
        apply List.map_congr_left
        intro c hc
        exact (hcsProp c hc).2.2.1
    have h49 : 49 ∉ cs := fun h => (hcsProp 49 h).2.2.2 rfl
    have hlast : lastIndexOf 49 (hrp ++ [49] ++ cs) = some hrp.length := by
      rw [List.append_assoc]; exact lastIndexOf_append hrp cs 49 h49
    have htake : (hrp ++ [49] ++ cs).take hrp.length = hrp := by
      rw [List.append_assoc, List.take_left']; rfl
    have hdrop : (hrp ++ [49] ++ cs).drop (hrp.length + 1) = cs := by
      have : hrp.length + 1 = (hrp ++ [49]).length := by simp
      rw [this, List.drop_left']; rfl
    have hbytes : toBytes cs = .ok (data ++ checksum hrp data) := by
      rw [← hcs]; exact toBytes_chars _ hall
    have hver : verifyChecksum hrp (data ++ checksum hrp data) = true :=
      checksum_verifies hrp data (fun c hc => by have := hchars c hc; omega) hdata
    unfold decode
    rw [hlenS]
    rw [if_neg (by omega)]
    simp only [hrange]
    rw [hlower]
    simp only [Bool.false_eq_true, if_false, ne_eq, not_true_eq_false, false_and, hlast, hlenS]
    rw [if_neg (by omega)]
    simp only [htake, hdrop, hbytes, hver]
    simp [checksum_length]

/-! ### ConvertBits and segwit addresses -/

/-- **`ConvertBits` round trip** (8→5 with padding, then 5→8 without), any length. -/
theorem convertBits_roundtrip (data : Bytes) (hd : ∀ b ∈ data, b < 256) :
    ∃ mid, convertBits data 8 5 true = .ok mid ∧ (∀ d ∈ mid, d < 32) ∧ convertBits mid 5 8 false = .ok data := by
  obtain ⟨mid, h1, h2, _, _, h3⟩ := convertBits_8_5_8 data hd
  exact ⟨mid, h1, h2, h3⟩

/-- the shape of an encoded string: hrp, separator, then charset characters (none of them `1`) -/
theorem encode_shape (hrp data : Bytes) (hdata : ∀ b ∈ data, b < 32) :
    encode hrp data = .ok (hrp ++ [49] ++ (data ++ checksum hrp data).map (fun b => charset.getD b 0)) ∧
    49 ∉ (data ++ checksum hrp data).map (fun b => charset.getD b 0) := by
  have hall : ∀ b ∈ data ++ checksum hrp data, b < 32 := by
    intro b hb
    rcases List.mem_append.mp hb with h | h
    · exact hdata b h
    · exact checksum_lt hrp data b h
  constructor
  · unfold encode; rw [toChars_ok _ hall]
  · intro h
    obtain ⟨b, hb, e⟩ := List.mem_map.mp h
    exact (charset_table b (hall b hb)).2.2.2.2 e

/-- a network prefix the address functions work with: at least two printable characters, none
    upper-case, short enough for a 32-byte program to fit the 90-character limit -/
def GoodHrp (hrp : Bytes) : Prop :=
  2 ≤ hrp.length ∧ hrp.length ≤ 24 ∧ ∀ c ∈ hrp, 33 ≤ c ∧ c ≤ 126 ∧ ¬ (65 ≤ c ∧ c ≤ 90)

theorem goodHrp_nets : GoodHrp hrpMainnet ∧ GoodHrp hrpTestnet ∧ GoodHrp hrpSolonet := by
  refine ⟨⟨by decide, by decide, by decide⟩, ⟨by decide, by decide, by decide⟩, ⟨by decide, by decide, by decide⟩⟩

theorem goodHrp_lower {hrp : Bytes} (h : GoodHrp hrp) : hrp.map toLower = hrp := by
  conv => rhs; rw [← List.map_id hrp]
  apply List.map_congr_left
  intro c hc
  unfold toLower; rw [if_neg (h.2.2 c hc).2.2]; rfl

def kindLen : AddrKind → Nat
  | .pubKeyHash => 20
  | .scriptHash => 32

/-- `encodeSegWitAddress` succeeds on every 20- or 32-byte program (its decode-and-compare self
    check never fires) and `decodeSegWitAddress` returns version 0 and the program. -/
theorem encodeSegWit_ok (hrp prog : Bytes) (hh : GoodHrp hrp) (hp : ∀ b ∈ prog, b < 256)
    (hl : prog.length = 20 ∨ prog.length = 32) :
    ∃ s cs, encodeSegWit hrp 0 prog = .ok s ∧ s = hrp ++ [49] ++ cs ∧ 49 ∉ cs ∧
      decodeSegWit s = .ok (0, prog) ∧
      ∃ vals, cs = chars vals ∧ (∀ b ∈ vals, b < 32) ∧ verifyChecksum hrp vals = true := by
  obtain ⟨mid, hm1, hm2, hm3, hm4, hm5⟩ := convertBits_8_5_8 prog hp
  have hdata : ∀ b ∈ (0 :: mid), b < 32 := by
    intro b hb
    rcases List.mem_cons.mp hb with rfl | h
    · decide
    · exact hm2 b h
  have hmlen : mid.length ≤ 52 := by omega
  obtain ⟨s, hs1, hs2⟩ := bech32_decode_encode hrp (0 :: mid) (by intro h; have := hh.1; simp [h] at this)
    hh.2.2 hdata (by simp only [List.length_cons]; have := hh.2.1; omega)
  obtain ⟨hshape, h49⟩ := encode_shape hrp (0 :: mid) hdata
  rw [hshape] at hs1
  injection hs1 with hs1
  have hdec : decodeSegWit s = .ok (0, prog) := by
    unfold decodeSegWit
    rw [hs2]
    simp only [hm5]
    have h1 : ¬ (0 > 16) := by decide
    rcases hl with hl | hl <;> simp [hl]
  have hall : ∀ b ∈ (0 :: mid) ++ checksum hrp (0 :: mid), b < 32 := by
    intro b hb
    rcases List.mem_append.mp hb with h | h
    · exact hdata b h
    · exact checksum_lt hrp _ b h
  refine ⟨s, _, ?_, hs1.symm, h49, hdec, (0 :: mid) ++ checksum hrp (0 :: mid), rfl, hall,
    checksum_verifies hrp (0 :: mid) (fun c hc => by have := hh.2.2 c hc; omega) hdata⟩
  unfold encodeSegWit
  rw [hm1]
  simp only
  rw [hshape]
  simp only
  rw [hs1, hdec]
  simp

/-- **Address round trip.** Every 20-byte (P2WPKH) / 32-byte (P2WSH) program encodes, on every
    network prefix, to a non-empty address string that decodes — on that network — to the same
    kind, prefix and program. -/
theorem address_roundtrip (kind : AddrKind) (hrp prog : Bytes) (hh : GoodHrp hrp)
    (hp : ∀ b ∈ prog, b < 256) (hl : prog.length = kindLen kind) :
    ∃ a, newAddress kind hrp prog = .ok a ∧ a.encodeAddress ≠ [] ∧
      decodeAddress a.encodeAddress hrp = .ok a ∧ a.program = prog ∧ a.kind = kind := by
  have hlow := goodHrp_lower hh
  have hl' : prog.length = 20 ∨ prog.length = 32 := by cases kind <;> simp [kindLen] at hl <;> omega
  obtain ⟨s, cs, hs, hshape, h49, hdec, _⟩ := encodeSegWit_ok hrp prog hh hp hl'
  refine ⟨⟨kind, hrp, prog⟩, ?_, ?_, ?_, rfl, rfl⟩
  · cases kind <;> simp [newAddress, kindLen] at hl ⊢ <;> simp [hl, hlow]
  · simp only [Address.encodeAddress, hs]
    rw [hshape]; simp
  · simp only [Address.encodeAddress, hs]
    unfold decodeAddress
    have hlast : lastIndexOf 49 s = some hrp.length := by
      rw [hshape, List.append_assoc]; exact lastIndexOf_append hrp cs 49 h49
    rw [hlast]
    simp only
    have h2 := hh.1
    rw [if_pos (by omega)]
    have htake : s.take (hrp.length + 1) = hrp ++ [49] := by
      rw [hshape]
      have : hrp.length + 1 = (hrp ++ [49]).length := by simp
      rw [this, List.take_left']; rfl
    rw [htake, List.map_append, hlow]
    simp only [List.map_cons, List.map_nil]
    have : toLower 49 = 49 := by decide
    rw [this, if_pos rfl, hdec]
    simp only [ne_eq, not_true_eq_false, if_false]
    have htk : (hrp ++ [49]).take ((hrp ++ [49]).length - 1) = hrp := by simp
    rw [htk]
    cases kind <;> simp [kindLen] at hl <;> simp [hl, newAddress, hlow]

/-- **…and only on that network**: an address of one network prefix is refused
    (`ErrUnknownAddressType`) when decoded for a different one. -/
theorem address_wrong_net_rejected (kind : AddrKind) (hrp hrp' prog : Bytes) (hh : GoodHrp hrp)
    (hp : ∀ b ∈ prog, b < 256) (hl : prog.length = kindLen kind) (hne : hrp' ≠ hrp) (a : Address)
    (ha : newAddress kind hrp prog = .ok a) :
    decodeAddress a.encodeAddress hrp' = .error .unknownType := by
  have hlow := goodHrp_lower hh
  have hl' : prog.length = 20 ∨ prog.length = 32 := by cases kind <;> simp [kindLen] at hl <;> omega
  obtain ⟨s, cs, hs, hshape, h49, hdec, _⟩ := encodeSegWit_ok hrp prog hh hp hl'
  have hae : a = ⟨kind, hrp, prog⟩ := by
    cases kind <;> simp [newAddress, kindLen] at hl ha <;> simp [hl, hlow] at ha <;> exact ha.symm
  subst hae
  simp only [Address.encodeAddress, hs]
  unfold decodeAddress
  have hlast : lastIndexOf 49 s = some hrp.length := by
    rw [hshape, List.append_assoc]; exact lastIndexOf_append hrp cs 49 h49
  rw [hlast]
  simp only
  split
  · have htake : s.take (hrp.length + 1) = hrp ++ [49] := by
      rw [hshape]
      have : hrp.length + 1 = (hrp ++ [49]).length := by simp
      rw [this, List.take_left']; rfl
    rw [htake, List.map_append, hlow]
    rw [if_neg]
    intro h
    have := List.append_inj_left' h (by simp)
    exact hne this.symm
  · rfl

/-- removing any one character of the prefix leaves a lower-case letter (so that a case change of
    one character makes the string mixed-case) -/
def TwoLetters (hrp : Bytes) : Prop :=
  ∀ h1 x h2, hrp = h1 ++ x :: h2 → ∃ ch ∈ h1 ++ h2, 97 ≤ ch ∧ ch ≤ 122

theorem twoLetters_of_pair (a b : Nat) (ha : 97 ≤ a ∧ a ≤ 122) (hb : 97 ≤ b ∧ b ≤ 122) : TwoLetters [a, b] := by
  intro h1 x h2 h
  match h1, h with
  | [], h => simp at h; exact ⟨b, by simp [← h.2], hb⟩
  | [y], h => simp at h; exact ⟨a, by simp [h.1], ha⟩
  | y :: z :: r, h => simp at h

theorem twoLetters_nets : TwoLetters hrpMainnet ∧ TwoLetters hrpTestnet ∧ TwoLetters hrpSolonet :=
  ⟨twoLetters_of_pair 98 110 (by decide) (by decide), twoLetters_of_pair 116 110 (by decide) (by decide),
   twoLetters_of_pair 115 110 (by decide) (by decide)⟩

theorem set_decomp (l : List Nat) (i c : Nat) (hi : i < l.length) :
    l = l.take i ++ l[i] :: l.drop (i + 1) ∧ l.set i c = l.take i ++ c :: l.drop (i + 1) := by
  constructor
  · simp
  · rw [List.set_eq_take_append_cons_drop, if_pos hi]

/-- **Decoding rejects any address with one character changed.** For every network prefix, every
    20/32-byte program, every position of the encoded address and every other byte value put
    there, `DecodeAddress` returns an error. -/
theorem address_substitution_rejected (kind : AddrKind) (hrp prog : Bytes) (hh : GoodHrp hrp)
    (h2 : TwoLetters hrp) (hp : ∀ b ∈ prog, b < 256) (hl : prog.length = kindLen kind)
    (a : Address) (ha : newAddress kind hrp prog = .ok a) (i c : Nat)
    (hi : i < a.encodeAddress.length) (hc : c ≠ a.encodeAddress[i]) :
    ∃ e, decodeAddress (a.encodeAddress.set i c) hrp = .error e := by
  have hlow := goodHrp_lower hh
  have hl' : prog.length = 20 ∨ prog.length = 32 := by cases kind <;> simp [kindLen] at hl <;> omega
  obtain ⟨s, cs, hs, hshape, h49, _, vals, hcs, hvals, hver⟩ := encodeSegWit_ok hrp prog hh hp hl'
  have hae : a = ⟨kind, hrp, prog⟩ := by
    cases kind <;> simp [newAddress, kindLen] at hl ha <;> simp [hl, hlow] at ha <;> exact ha.symm
  subst hae
  have henc : (⟨kind, hrp, prog⟩ : Address).encodeAddress = hrp ++ 49 :: cs := by
    simp only [Address.encodeAddress, hs, hshape]; simp
  simp only [henc] at hi hc ⊢
  have hlowc : ∀ ch ∈ hrp, toLower ch = ch := by
    intro ch hch; unfold toLower; rw [if_neg (hh.2.2 ch hch).2.2]
  rcases Nat.lt_trichotomy i hrp.length with hlt | heq | hgt
  · -- in the human-readable part
    rw [List.set_append_left _ _ hlt]
    obtain ⟨d1, d2⟩ := set_decomp hrp i c hlt
    rw [d2]
    have hx : c ≠ hrp[i] := by
      rw [List.getElem_append_left hlt] at hc; exact hc
    obtain ⟨ch, hch, hl1⟩ := h2 _ _ _ d1
    have := subst_hrp (hrp.take i) (hrp.drop (i + 1)) cs hrp[i] c hx (by rw [← d1]; exact hlowc)
      ⟨ch, hch, hl1⟩ h49
    rw [← d1] at this
    exact this
  · -- the separator
    subst heq
    rw [List.set_append_right _ _ (Nat.le_refl _)]
    simp only [Nat.sub_self, List.set_cons_zero]
    have hx : c ≠ 49 := by
      rw [List.getElem_append_right (Nat.le_refl _)] at hc
      simpa using hc
    exact ⟨_, subst_separator hrp cs c hx h49⟩
  · -- in the data part
    rw [List.set_append_right _ _ (Nat.le_of_lt hgt)]
    obtain ⟨k, hk⟩ : ∃ k, i - hrp.length = k + 1 := ⟨i - hrp.length - 1, by omega⟩
    rw [hk, List.set_cons_succ]
    have hkl : k < cs.length := by
      simp only [List.length_append, List.length_cons] at hi; omega
    have hkv : k < vals.length := by rw [hcs] at hkl; simpa [chars] using hkl
    obtain ⟨d1, d2⟩ := set_decomp vals k 0 hkv
    have hcsd : cs = chars (vals.take k) ++ charset.getD vals[k] 0 :: chars (vals.drop (k + 1)) := by
      rw [hcs]
      have := congrArg chars d1
      simp only [chars, List.map_append, List.map_cons] at this ⊢
      exact this
    have hset : cs.set k c = chars (vals.take k) ++ c :: chars (vals.drop (k + 1)) := by
      rw [hcsd]
      have hlen : (chars (vals.take k)).length = k := by simp [chars]; omega
      rw [List.set_append_right _ _ (by omega), hlen, Nat.sub_self, List.set_cons_zero]
    rw [hset]
    have hx : c ≠ charset.getD vals[k] 0 := by
      have hge : hrp.length ≤ i := Nat.le_of_lt hgt
      rw [List.getElem_append_right hge] at hc
      have : (49 :: cs)[i - hrp.length]'(by simp only [List.length_cons]; omega) = cs[k] := by
        simp only [hk, List.getElem_cons_succ]
      rw [this] at hc
      have hck : cs[k] = charset.getD vals[k] 0 := by
        simp only [hcs, chars, List.getElem_map]
      rw [hck] at hc; exact hc
    obtain ⟨ch, hch, hl1⟩ : ∃ ch ∈ hrp, 97 ≤ ch ∧ ch ≤ 122 := by
      match hrp, hh.1, h2 with
      | x :: r, _, h2 =>
        obtain ⟨ch, hch, h⟩ := h2 [] x r rfl
        exact ⟨ch, by simp at hch; simp [hch], h⟩
    exact subst_data hrp (vals.take k) (vals.drop (k + 1)) vals[k] c hlowc ⟨ch, hch, hl1⟩
      (by rw [← d1]; exact hvals) (by rw [← d1]; exact hver) hx

/-! ### BIP-39 entropy ↔ word indices -/

section mnemonic
open BytomModel.Mnemonic BytomModel.Lemmas.Mnemonic

/-- the arithmetic core, for one entropy length `L` with `cs` checksum bits and `n` words -/
theorem mnemonic_core (ck : Mnemonic.Bytes → Nat) (e : Mnemonic.Bytes) (L cs n : Nat)
    (hb : ∀ b ∈ e, b < 256) (hck : ck e < 256)
    (hL : e.length = L) (hcs : L / 4 = cs) (hcs8 : cs ≤ 8)
    (hn : (L * 8 + L * 8 / 32) / 11 = n) (hvalid : ¬ (L * 8 % 32 ≠ 0 ∨ L * 8 < 128 ∨ L * 8 > 256))
    (hpow : 2048 ^ n = 256 ^ L * 2 ^ cs) (hmask : checksumMask n = 2 ^ cs - 1)
    (hshift : (if n ≠ 24 then ck e / checksumShift n else ck e) = ck e / 2 ^ (8 - cs))
    (hn3 : ¬ (n % 3 ≠ 0 ∨ n < 12 ∨ n > 24)) (hn4 : n / 3 * 4 = L) :
    ∃ idx, newMnemonicIdx ck e = .ok idx ∧ idx.length = n ∧ (∀ i ∈ idx, i < 2048) ∧
      entropyFromIdx ck (idx.map some) = .ok e := by
  have hD := addChecksumInt_eq ck e hck (by rw [hL, hcs]; exact hcs8)
  rw [hL, hcs] at hD
  have hE := fromBytes_lt e hb
  rw [hL] at hE
  have hc : ck e / 2 ^ (8 - cs) < 2 ^ cs := by
    apply Nat.div_lt_of_lt_mul
    rw [← Nat.pow_add]
    have : 8 - cs + cs = 8 := by omega
    rw [this]; exact hck
  have h2pos : 0 < 2 ^ cs := Nat.two_pow_pos cs
  generalize hcdef : ck e / 2 ^ (8 - cs) = c at hD hc hshift
  generalize hEdef : Mnemonic.fromBytes e = E at hD hE
  have hDlt : addChecksumInt ck e < 2048 ^ n := by
    rw [hD, hpow]
    have : (E + 1) * 2 ^ cs ≤ 256 ^ L * 2 ^ cs := Nat.mul_le_mul_right _ hE
    nlinarith
  refine ⟨digits2048 n (addChecksumInt ck e), ?_, digits2048_length _ _, digits2048_lt _ _, ?_⟩
  · unfold newMnemonicIdx
    simp only [hL, hn, hvalid, if_false]
  · unfold entropyFromIdx
    simp only [List.length_map, digits2048_length, hn3, if_false]
    rw [go_digits, Nat.zero_mul, Nat.zero_add, Nat.mod_eq_of_lt hDlt]
    simp only [hmask]
    have hm1 : 2 ^ cs - 1 + 1 = 2 ^ cs := by omega
    rw [hm1, Nat.and_two_pow_sub_one_eq_mod, hD]
    have e1 : (E * 2 ^ cs + c) % 2 ^ cs = c := by
      rw [Nat.mul_comm, Nat.mul_add_mod]; exact Nat.mod_eq_of_lt hc
    have e2 : (E * 2 ^ cs + c) / 2 ^ cs = E := by
      rw [Nat.mul_comm, Nat.mul_add_div h2pos, Nat.div_eq_of_lt hc]; rfl
    rw [e1, e2, hn4, pad_minBytes L E hE]
    have hback : toBytesN L E = e := by rw [← hEdef, ← hL]; exact toBytesN_fromBytes e hb
    rw [hback, hshift]
    simp

/-- **Mnemonic round trip**: for every entropy of 128, 160, 192, 224 or 256 bits,
    `EntropyFromMnemonic (NewMnemonic entropy) = entropy` at the level of word indices (all of
    which are below 2048), for any checksum function with byte values. -/
theorem mnemonic_roundtrip (ck : Mnemonic.Bytes → Nat) (e : Mnemonic.Bytes) (hb : ∀ b ∈ e, b < 256)
    (hck : ck e < 256)
    (hl : e.length = 16 ∨ e.length = 20 ∨ e.length = 24 ∨ e.length = 28 ∨ e.length = 32) :
    ∃ idx, newMnemonicIdx ck e = .ok idx ∧ idx.length = (e.length * 8 + e.length / 4) / 11 ∧
      (∀ i ∈ idx, i < 2048) ∧ entropyFromIdx ck (idx.map some) = .ok e := by
  rcases hl with h | h | h | h | h
  · obtain ⟨idx, h1, h2, h3, h4⟩ := mnemonic_core ck e 16 4 12 hb hck h (by decide) (by decide) (by decide)
      (by decide) (by norm_num) (by decide) (by simp [checksumShift]) (by decide) (by decide)
    exact ⟨idx, h1, by rw [h2, h], h3, h4⟩
  · obtain ⟨idx, h1, h2, h3, h4⟩ := mnemonic_core ck e 20 5 15 hb hck h (by decide) (by decide) (by decide)
      (by decide) (by norm_num) (by decide) (by simp [checksumShift]) (by decide) (by decide)
    exact ⟨idx, h1, by rw [h2, h], h3, h4⟩
  · obtain ⟨idx, h1, h2, h3, h4⟩ := mnemonic_core ck e 24 6 18 hb hck h (by decide) (by decide) (by decide)
      (by decide) (by norm_num) (by decide) (by simp [checksumShift]) (by decide) (by decide)
    exact ⟨idx, h1, by rw [h2, h], h3, h4⟩
  · obtain ⟨idx, h1, h2, h3, h4⟩ := mnemonic_core ck e 28 7 21 hb hck h (by decide) (by decide) (by decide)
      (by decide) (by norm_num) (by decide) (by simp [checksumShift]) (by decide) (by decide)
    exact ⟨idx, h1, by rw [h2, h], h3, h4⟩
  · obtain ⟨idx, h1, h2, h3, h4⟩ := mnemonic_core ck e 32 8 24 hb hck h (by decide) (by decide) (by decide)
      (by decide) (by norm_num) (by decide) (by simp) (by decide) (by decide)
    exact ⟨idx, h1, by rw [h2, h], h3, h4⟩

end mnemonic

/-! ### base32 (std encoding) -/

/-- **Base32 round trip**: `DecodeString (EncodeToString src) = src` without error, for byte
    strings of any length (all five padding shapes included). -/
theorem base32_roundtrip (src : Base32.Bytes) (hb : ∀ b ∈ src, b < 256) :
    Base32.decodeString (Base32.encodeToString src) = (src, none) := by
  unfold Base32.decodeString Base32.encodeToString
  have hfilter : (Base32.encodeF (src.length + 1) src).filter (fun c => c != 13 && c != 10)
      = Base32.encodeF (src.length + 1) src := by
    rw [List.filter_eq_self]
    intro c hc
    have := BytomModel.Lemmas.Base32.encodeF_no_newline _ _ c hc
    simp [this.1, this.2]
  simp only [hfilter]
  have := BytomModel.Lemmas.Base32.decodeF_encodeF (Base32.encodeF (src.length + 1) src).length
    (src.length + 1) src [] ((Base32.encodeF (src.length + 1) src).length + 1) hb (by omega) (by omega)
  simpa using this

/-! ### satisfiability of the hypotheses; tests on literals -/

example : ∃ s, encode hrpMainnet [0, 1, 2, 31] = .ok s ∧ decode s = .ok (hrpMainnet, [0, 1, 2, 31]) :=
  bech32_decode_encode hrpMainnet [0, 1, 2, 31] (by decide) (by decide) (by decide) (by decide)
example : GoodHrp hrpMainnet ∧ TwoLetters hrpMainnet := ⟨goodHrp_nets.1, twoLetters_nets.1⟩
example : Base32.encodeToString [102, 111, 111] = [77, 90, 88, 87, 54, 61, 61, 61] := by decide
example : verifyChecksum hrpMainnet ([3, 7] ++ checksum hrpMainnet [3, 7]) = true := by decide
example : verifyChecksum hrpMainnet ([3, 8] ++ checksum hrpMainnet [3, 7]) = false := by decide

end BytomModel.Props.C29
