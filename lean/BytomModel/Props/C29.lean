import BytomModel.Model.Bech32
namespace BytomModel.Props.C29
open BytomModel.Bech32
theorem placeholder : hrpMainnet = [98, 110] := rfl
end BytomModel.Props.C29
