/-
C29 — Addresses and text encodings round-trip and detect corruption.

Models: `BytomModel.Bech32` (bech32.go + the segwit address functions of address.go),
`BytomModel.Base32`, `BytomModel.Mnemonic`.  All theorems are for ALL inputs of the stated
shape (any length); finite character tables are closed by `decide` and lifted by lemmas.
-/
import BytomModel.Lemmas.Bech32

namespace BytomModel.Props.C29
open BytomModel.Bech32 BytomModel.Lemmas.Bech32

/-! ### the bech32 checksum -/

/-- **xor-linearity** of the checksum state update (`bech32Polymod`'s loop body). -/
theorem polymod_linear (a b v w : Nat) :
    polymodStep (a ^^^ b) (v ^^^ w) = polymodStep a v ^^^ polymodStep b w :=
  polymodStep_xor a b v w

/-- the expanded hrp of a string of bytes consists of 30-bit values (indeed ≤ 31) -/
theorem hrpExpand_lt (hrp : Bytes) (h : ∀ c ∈ hrp, c < 256) : ∀ v ∈ hrpExpand hrp, v < 2 ^ 30 := by
  intro v hv
  unfold hrpExpand at hv
  simp only [List.mem_append, List.mem_map, List.mem_singleton] at hv
  rcases hv with (⟨c, hc, rfl⟩ | rfl) | ⟨c, hc, rfl⟩
  · have := h c hc
    rw [Nat.shiftRight_eq_div_pow]; omega
  · decide
  · have e31 : (31 : Nat) = 2 ^ 5 - 1 := by decide
    rw [e31, Nat.and_two_pow_sub_one_eq_mod]; omega

/-- **The generated checksum verifies**, for every hrp and every 5-bit data of any length. -/
theorem checksum_verifies (hrp data : Bytes) (hh : ∀ c ∈ hrp, c < 256) (hd : ∀ b ∈ data, b < 32) :
    verifyChecksum hrp (data ++ checksum hrp data) = true := by
  unfold verifyChecksum
  rw [← List.append_assoc, polymod_checksum hrp data]
  · rfl
  · intro v hv
    rcases List.mem_append.mp hv with h | h
    · exact hrpExpand_lt hrp hh v h
    · have := hd v h; omega

/-- **Any single wrong symbol is detected**, at any position and for any length: if a data part
    (with its checksum) verifies, the same data with one symbol replaced by a different one
    does not. -/
theorem single_symbol_error_detected (hrp pre post : Bytes) (x x' : Nat) (hx : x < 32) (hx' : x' < 32)
    (hne : x ≠ x') (hv : verifyChecksum hrp (pre ++ x :: post) = true) :
    verifyChecksum hrp (pre ++ x' :: post) = false := by
  unfold verifyChecksum at hv ⊢
  have h1 : polymod (hrpExpand hrp ++ (pre ++ x :: post)) = 1 := by simpa using hv
  have := polymod_single_error (hrpExpand hrp ++ pre) post x x' (by omega) (by omega) hne
  rw [List.append_assoc, List.append_assoc, h1] at this
  simp only [beq_eq_false_iff_ne, ne_eq]
  exact fun h => this h.symm

/-! ### bech32 strings -/

/-- **`Bech32Decode (Bech32Encode hrp data) = (hrp, data)`** for every non-empty hrp of printable
    characters without upper-case letters and every 5-bit data, within the 90-character limit. -/
theorem bech32_decode_encode (hrp data : Bytes) (hne : hrp ≠ [])
    (hchars : ∀ c ∈ hrp, 33 ≤ c ∧ c ≤ 126 ∧ ¬ (65 ≤ c ∧ c ≤ 90))
    (hdata : ∀ b ∈ data, b < 32) (hlen : hrp.length + data.length + 7 ≤ 90) :
    ∃ s, encode hrp data = .ok s ∧ decode s = .ok (hrp, data) := by
  have hall : ∀ b ∈ data ++ checksum hrp data, b < 32 := by
    intro b hb
    rcases List.mem_append.mp hb with h | h
    · exact hdata b h
    · exact checksum_lt hrp data b h
  generalize hcs : (data ++ checksum hrp data).map (fun b => charset.getD b 0) = cs
  have hcsProp : ∀ c ∈ cs, 33 ≤ c ∧ c ≤ 126 ∧ toLower c = c ∧ c ≠ 49 := by
    intro c hc
    rw [← hcs] at hc
    obtain ⟨b, hb, rfl⟩ := List.mem_map.mp hc
    have := charset_table b (hall b hb)
    exact ⟨this.2.1, this.2.2.1, this.2.2.2.1, this.2.2.2.2⟩
  have hcslen : cs.length = data.length + 6 := by
    rw [← hcs]; simp [checksum_length]
  refine ⟨hrp ++ [49] ++ cs, ?_, ?_⟩
  · unfold encode; rw [toChars_ok _ hall, hcs]
  · have hlenS : (hrp ++ [49] ++ cs).length = hrp.length + data.length + 7 := by
      simp [hcslen]; omega
    have hpos : 0 < hrp.length := List.length_pos_iff.mpr hne
    have hrange : (hrp ++ [49] ++ cs).any (fun c => decide (c < 33 ∨ c > 126)) = false := by
      rw [List.any_eq_false]
      intro c hc
      simp only [List.mem_append, List.mem_singleton] at hc
      rcases hc with (h | rfl) | h
      · have := hchars c h; simp; omega
      · decide
      · have := hcsProp c h; simp; omega
    have hlower : (hrp ++ [49] ++ cs).map toLower = hrp ++ [49] ++ cs := by
      rw [List.map_append, List.map_append]
      congr 1
      · congr 1
        · conv => rhs; rw [← List.map_id hrp]
          apply List.map_congr_left
          intro c hc
          have := hchars c hc
          unfold toLower; rw [if_neg this.2.2]; rfl
      · conv => rhs; rw [← List.map_id cs]
        apply List.map_congr_left
        intro c hc
        exact (hcsProp c hc).2.2.1
    have h49 : 49 ∉ cs := fun h => (hcsProp 49 h).2.2.2 rfl
    have hlast : lastIndexOf 49 (hrp ++ [49] ++ cs) = some hrp.length := by
      rw [List.append_assoc]; exact lastIndexOf_append hrp cs 49 h49
    have htake : (hrp ++ [49] ++ cs).take hrp.length = hrp := by
      rw [List.append_assoc, List.take_left']; rfl
    have hdrop : (hrp ++ [49] ++ cs).drop (hrp.length + 1) = cs := by
      have : hrp.length + 1 = (hrp ++ [49]).length := by simp
      rw [this, List.drop_left']; rfl
    have hbytes : toBytes cs = .ok (data ++ checksum hrp data) := by
      rw [← hcs]; exact toBytes_chars _ hall
    have hver : verifyChecksum hrp (data ++ checksum hrp data) = true :=
      checksum_verifies hrp data (fun c hc => by have := hchars c hc; omega) hdata
    unfold decode
    rw [hlenS]
    rw [if_neg (by omega)]
    simp only [hrange]
    rw [hlower]
    simp only [Bool.false_eq_true, if_false, ne_eq, not_true_eq_false, false_and, hlast, hlenS]
    rw [if_neg (by omega)]
    simp only [htake, hdrop, hbytes, hver]
    simp [checksum_length]

/-! ### satisfiability of the hypotheses; tests on literals -/

example : ∃ s, encode hrpMainnet [0, 1, 2, 31] = .ok s ∧ decode s = .ok (hrpMainnet, [0, 1, 2, 31]) :=
  bech32_decode_encode hrpMainnet [0, 1, 2, 31] (by decide) (by decide) (by decide) (by decide)
example : verifyChecksum hrpMainnet ([3, 7] ++ checksum hrpMainnet [3, 7]) = true := by decide
example : verifyChecksum hrpMainnet ([3, 8] ++ checksum hrpMainnet [3, 7]) = false := by decide

end BytomModel.Props.C29
