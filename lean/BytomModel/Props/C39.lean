/-
C39 — Event subscribers see posted events in order, once each.

Model: `BytomModel.Event` (`Model/Event.lean`), an executable mirror of `event/event.go`.
The property is read per subscriber through `View` (same file): a single-subscriber
specification that knows nothing of the dispatcher's type table — it follows one
subscription id through the history and records

  * `offered`    every event of one of its registered types posted (successfully) while it
                 was registered, i.e. after its `Subscribe` and before its `Unsubscribe`/`Stop`;
  * `delivered`  those of `offered` for which the channel had room at that moment;
  * `taken`      how many the reader has received so far (`received = delivered.take taken`,
                 `pending = delivered.drop taken`).

The theorems below hold for ALL sequential histories (lists of operations of any length,
any number of subscriptions and types) — by induction with the representation invariant
`Lemmas.Event.Inv` and the refinement relation `Lemmas.Event.Rel`.
-/
import BytomModel.Lemmas.Event
import BytomModel.Lemmas.EventConc

namespace BytomModel.Props.C39
open BytomModel.Event BytomModel.Lemmas.Event

/-! ### refinement along whole histories -/

theorem run_refines (id : Nat) (ops : List Op) : ∀ (s : State) (v : View), Inv s → Rel s id v →
    Inv (final s ops) ∧ Rel (final s ops) id (View.run s.cap id v ops) := by
  induction ops with
  | nil => intro s v hi hr; exact ⟨hi, hr⟩
  | cons o os ih =>
    intro s v hi hr
    obtain ⟨hi', hr', _⟩ := step_refines o hi hr
    have := ih (step s o).1 (View.step s.cap id v o) hi' hr'
    rw [step_cap] at this
    simpa [final, run, View.run] using this

theorem final_append (s : State) (a b : List Op) : final s (a ++ b) = final (final s a) b := by
  induction a generalizing s with
  | nil => rfl
  | cons o os ih => simp only [final, run, List.cons_append] at ih ⊢; exact ih _

theorem final_cap (s : State) (ops : List Op) : (final s ops).cap = s.cap := by
  induction ops generalizing s with
  | nil => rfl
  | cons o os ih => simp only [final, run] at ih ⊢; rw [ih, step_cap]

/-- **delivery_exact** — after ANY history, the channel of EVERY subscription holds exactly
what the single-subscriber specification says is pending (the events of its types posted
while it was registered and while there was room, in posting order, minus those already
received), and it is closed exactly when the specification says so. -/
theorem delivery_exact (cap : Nat) (ops : List Op) (id : Nat) (sub : Sub)
    (h : (final (init cap) ops).subs[id]? = some sub) :
    sub.buf = (View.run cap id View.init ops).pending ∧
    sub.closed = (View.run cap id View.init ops).closed := by
  obtain ⟨_, hr⟩ := run_refines id ops (init cap) View.init (inv_init cap) (rel_init cap id)
  obtain ⟨h1, h2⟩ := hr.sub sub h
  exact ⟨h2, h1⟩

/-- **receive_exact** — every receive (and every `Closed()` query) on a subscription, at any
point of any history, returns what the specification predicts from the history so far: the
next not-yet-received delivered event (so: in order, each exactly once), `empty` when all
delivered events were received and the subscription is open, `chanClosed` when it is closed. -/
theorem receive_exact (cap : Nat) (pre : List Op) (o : Op) (id : Nat) (r : Res)
    (h : View.expect id (View.run cap id View.init pre) o = some r) :
    (step (final (init cap) pre) o).2 = r := by
  obtain ⟨hi, hr⟩ := run_refines id pre (init cap) View.init (inv_init cap) (rel_init cap id)
  exact (step_refines o hi hr).2.2 r h

/-! ### what the specification itself guarantees (facts about `View` alone) -/

theorem received_append_pending (v : View) : v.received ++ v.pending = v.delivered := by
  simp [View.received, View.pending]

/-- invariants of a view along any history -/
structure VInv (cap : Nat) (v : View) : Prop where
  sub : v.delivered.Sublist v.offered
  room : v.offered.length ≤ cap → v.delivered = v.offered
  closedNoTypes : v.closed = true → v.types = []
  stoppedNoTypes : v.stopped = true → v.types = []
  notCreated : v.created = false → v.types = [] ∧ v.offered = []

theorem vinv_init (cap : Nat) : VInv cap View.init :=
  ⟨by simp [View.init], by simp [View.init], by simp [View.init], by simp [View.init], by simp [View.init]⟩

theorem vinv_step (cap id : Nat) (v : View) (o : Op) (h : VInv cap v) : VInv cap (View.step cap id v o) := by
  cases o with
  | subscribe ts =>
    simp only [View.step]
    split
    · split
      · exact ⟨h.sub, h.room, by simp, by simp, by simp⟩
      · rename_i hs
        refine ⟨h.sub, h.room, by simp, ?_, by simp⟩
        intro hst; simp only [] at hst; exact absurd hst hs
    · exact ⟨h.sub, h.room, h.closedNoTypes, h.stoppedNoTypes, h.notCreated⟩
  | post e =>
    simp only [View.step]
    split
    · rename_i hc
      split
      · rename_i hroom
        refine ⟨List.Sublist.append h.sub (List.Sublist.refl _), ?_, h.closedNoTypes, h.stoppedNoTypes, ?_⟩
        · intro hl
          simp only [List.length_append, List.length_singleton] at hl
          simp only []
          rw [h.room (by omega)]
        · intro hcr
          have := (h.notCreated hcr).1
          simp [this] at hc
      · rename_i hroom
        refine ⟨?_, ?_, h.closedNoTypes, h.stoppedNoTypes, ?_⟩
        · exact List.Sublist.trans h.sub (List.sublist_append_left _ _)
        · intro hl
          simp only [List.length_append, List.length_singleton] at hl
          exfalso
          have := h.room (by omega)
          rw [this] at hroom
          omega
        · intro hcr
          have := (h.notCreated hcr).1
          simp [this] at hc
    · exact h
  | unsubscribe i =>
    simp only [View.step]
    split
    · rename_i hc
      refine ⟨h.sub, h.room, by simp, by simp, ?_⟩
      intro hcr; simp only [] at hcr; rw [hc.2] at hcr; cases hcr
    · exact h
  | stop =>
    simp only [View.step]
    exact ⟨h.sub, h.room, by simp, by simp, fun hcr => ⟨rfl, (h.notCreated hcr).2⟩⟩
  | recv i =>
    simp only [View.step]
    split
    · exact ⟨h.sub, h.room, h.closedNoTypes, h.stoppedNoTypes, h.notCreated⟩
    · exact h
  | isClosed i => exact h

theorem vinv_run (cap id : Nat) (ops : List Op) : ∀ v, VInv cap v → VInv cap (View.run cap id v ops) := by
  induction ops with
  | nil => intro v h; exact h
  | cons o os ih => intro v h; exact ih _ (vinv_step cap id v o h)

/-- **no duplication, no reordering** — what is delivered is a subsequence of what was
offered: every offered event at most once, in posting order. -/
theorem delivered_sublist_offered (cap id : Nat) (ops : List Op) :
    (View.run cap id View.init ops).delivered.Sublist (View.run cap id View.init ops).offered :=
  (vinv_run cap id ops _ (vinv_init cap)).sub

/-- **no loss unless the buffer was full** — as long as no more events were offered than
the channel can hold (so it can never have been full), everything offered is delivered. -/
theorem delivered_eq_offered_of_room (cap id : Nat) (ops : List Op)
    (h : (View.run cap id View.init ops).offered.length ≤ cap) :
    (View.run cap id View.init ops).delivered = (View.run cap id View.init ops).offered :=
  (vinv_run cap id ops _ (vinv_init cap)).room h

/-- a single post to a registered, non-full subscriber is delivered (appended last) -/
theorem post_delivered (cap id : Nat) (v : View) (e : Ev) (hs : v.stopped = false) (ht : e.typ ∈ v.types)
    (hroom : v.pending.length < cap) :
    (View.step cap id v (.post e)).delivered = v.delivered ++ [e] := by
  have : v.delivered.length - v.taken < cap := by simpa [View.pending] using hroom
  simp [View.step, hs, ht, this]

/-- a post while the channel is full changes nothing for that subscriber except the log of
offered events (the event is dropped; nothing else is lost or reordered) -/
theorem post_dropped_when_full (cap id : Nat) (v : View) (e : Ev) (hfull : ¬ v.pending.length < cap) :
    (View.step cap id v (.post e)).delivered = v.delivered := by
  have : ¬ v.delivered.length - v.taken < cap := by simpa [View.pending] using hfull
  simp only [View.step]
  split
  · simp [this]
  · rfl

/-- nothing is delivered to a subscription that is closed (unsubscribed / stopped) or to an
event type it did not subscribe to -/
theorem post_not_delivered (cap id : Nat) (v : View) (e : Ev) (hv : VInv cap v)
    (h : v.closed = true ∨ v.stopped = true ∨ e.typ ∉ v.types) :
    View.step cap id v (.post e) = v := by
  have : (!v.stopped && decide (e.typ ∈ v.types)) = false := by
    rcases h with h | h | h
    · simp [hv.closedNoTypes h]
    · simp [h]
    · simp [h]
  simp [View.step, this]

/-! ### dispatcher-level facts -/

/-- **post_after_stop_fails** -/
theorem post_after_stop_fails (s : State) (e : Ev) (h : s.stopped = true) :
    post s e = (s, .muxClosed) := by
  simp [post, h]

theorem post_before_stop_succeeds (s : State) (e : Ev) (h : s.stopped = false) :
    (post s e).2 = .postOk := by
  simp [post, h]

theorem step_stopped (s : State) (o : Op) (h : s.stopped = true) : (step s o).1.stopped = true := by
  cases o <;> simp only [step]
  · unfold subscribe; simp [h]
  · unfold post; simp [h]
  · unfold unsubscribe; split <;> simp [h]
  · rfl
  · unfold recv; split
    · exact h
    · split <;> simp [h]
  · unfold isClosed; split <;> exact h

/-- **stopped is permanent**: after `Stop`, whatever happens next, the dispatcher stays
stopped — so every later `Post` fails (with `post_after_stop_fails`). -/
theorem stopped_forever (s : State) (ops : List Op) (h : s.stopped = true) : (final s ops).stopped = true := by
  induction ops generalizing s with
  | nil => exact h
  | cons o os ih => simp only [final, run] at ih ⊢; exact ih _ (step_stopped s o h)

theorem stop_stops (s : State) : (stop s).1.stopped = true := rfl

/-- every `Post` issued anywhere after a `Stop` in a history fails -/
theorem post_after_stop_in_history (cap : Nat) (a b : List Op) (e : Ev) :
    (step (final (init cap) (a ++ [.stop] ++ b)) (.post e)).2 = .muxClosed := by
  have h1 : (final (init cap) (a ++ [.stop])).stopped = true := by
    rw [final_append]; rfl
  have h2 : (final (init cap) (a ++ [.stop] ++ b)).stopped = true := by
    rw [final_append]; exact stopped_forever _ b h1
  simp only [step]
  rw [post_after_stop_fails _ e h2]

theorem inv_reachable (cap : Nat) (ops : List Op) : Inv (final (init cap) ops) :=
  (run_refines 0 ops (init cap) View.init (inv_init cap) (rel_init cap 0)).1

/-- **unsubscribe_total** — in every reachable state `Unsubscribe` on any handle returns
(the model has no waiting step: the code's `closewait` takes the locks and closes the
channel; `deliver` never blocks while holding `postMu` because its `select` has a
`default` arm — tied by `Ties.C39.deliver_has_default`), the subscription is closed
afterwards, no type lists it any more, and its buffered events are untouched: the result
does not depend on how full the buffer is. -/
theorem unsubscribe_total (cap : Nat) (ops : List Op) (id : Nat) (sub : Sub)
    (h : (final (init cap) ops).subs[id]? = some sub) :
    (unsubscribe (final (init cap) ops) id).2 = .done ∧
    (unsubscribe (final (init cap) ops) id).1.subs[id]? = some { sub with closed := true } ∧
    (∀ t, id ∉ lookup (unsubscribe (final (init cap) ops) id).1.subm t) := by
  have hi := inv_reachable cap ops
  have hlt := (List.getElem?_eq_some_iff.mp h).1
  refine ⟨by simp [unsubscribe, hlt], ?_, ?_⟩
  · simp only [unsubscribe, hlt, if_true]
    rw [getElem?_modAt, if_pos rfl, h]; rfl
  · intro t hm
    simp only [unsubscribe, hlt, if_true] at hm
    exact ((mem_lookup_delSub _ hi.wf id t id).mp hm).1 rfl

/-- `Subscribe` reports a duplicate exactly when the type list has a repetition (in a
reachable, not stopped dispatcher) -/
theorem subscribe_dup_iff (cap : Nat) (ops : List Op) (ts : List Nat)
    (hst : (final (init cap) ops).stopped = false) :
    (subscribe (final (init cap) ops) ts).2 = .subDup ↔ ¬ ts.Nodup := by
  have hi := inv_reachable cap ops
  generalize final (init cap) ops = s at *
  have hnot : ∀ t, s.subs.length ∈ lookup s.subm t ↔ t ∈ ([] : List Nat) := by
    intro t
    simp only [List.not_mem_nil, iff_false]
    intro h
    obtain ⟨sub, hs, _⟩ := hi.reg t _ h
    have := (List.getElem?_eq_some_iff.mp hs).1
    omega
  obtain ⟨_, _, _, r4⟩ := register_spec s.subs.length ts s.subm [] hi.wf hnot
  rw [dupFreePrefix_eq_self] at r4
  simp only [subscribe, hst, Bool.false_eq_true, if_false]
  generalize register s.subs.length s.subm ts = rr at r4
  obtain ⟨m, dup⟩ := rr
  simp only [] at r4 ⊢
  cases dup with
  | true =>
    simp only [if_true, true_iff]
    intro hn
    have := r4.mpr ⟨hn, by simp⟩
    cases this
  | false =>
    simp only [Bool.false_eq_true, if_false]
    have := r4.mp rfl
    simp [this.1]

/-- a successful `Subscribe(ts…)` registers the subscription for exactly `ts` -/
theorem dupFreePrefix_nodup (ts : List Nat) (h : ts.Nodup) : dupFreePrefix [] ts = ts :=
  (dupFreePrefix_eq_self [] ts).mpr ⟨h, by simp⟩

/-! ### several goroutines: every interleaving of the atomic steps (`Model/EventConc.lean`) -/

section Concurrent
open BytomModel.EventConc BytomModel.Lemmas.EventConc

/-- **per_sender_fifo** — for ANY number of goroutines running ANY programs of
post/subscribe/unsubscribe/stop/receive operations, under ANY schedule of their atomic steps
(snapshot under the read lock, one `deliver` per subscription of the snapshot, `del`,
`closewait`, …): the events of poster `p` that reached the channel of subscription `sid`
form a subsequence of the events `p` posted, in `p`'s program order — per-poster FIFO, and
no event is delivered twice to the same subscription. (The relative order of DIFFERENT
posters is whatever the schedule makes it; it is not constrained.) -/
theorem per_sender_fifo (cap : Nat) (progs : List (List COp)) (sched : List Nat) (p sid : Nat) (t : Thread)
    (ht : (runSched (initC cap progs) sched).threads[p]? = some t) :
    (deliveredFrom (runSched (initC cap progs) sched) p sid).Sublist t.posted :=
  ((cinv_run sched _ (cinv_init cap progs)).threads p t ht).sublist sid

/-- **unsubscribe_never_waits** — a goroutine that is about to run `Unsubscribe` finishes it
with at most two steps of its own (`del`, then `closewait`; one step for a handle the
dispatcher never issued), whatever the other goroutines do before and between these steps
(`σ₁`, `σ₂` are arbitrary schedules of the OTHER threads) and whatever the buffers contain:
there is no state in which its next step is not enabled. -/
theorem unsubscribe_never_waits (c : CState) (i id : Nat) (t : Thread) (rest : List COp)
    (ht : c.threads[i]? = some t) (hpc : t.pc = .idle) (hprog : t.prog = .unsubscribe id :: rest)
    (σ₁ : List Nat) (h1 : i ∉ σ₁) :
    ∃ t1, (stepThread (runSched c σ₁) i).threads[i]? = some t1 ∧ t1.prog = rest ∧
      (t1.pc = .idle ∨
        (t1.pc = .closing id ∧ ∀ σ₂ : List Nat, i ∉ σ₂ →
          ∃ t2, (stepThread (runSched (stepThread (runSched c σ₁) i) σ₂) i).threads[i]? = some t2 ∧
            t2.prog = rest ∧ t2.pc = .idle)) := by
  have e1 : (runSched c σ₁).threads[i]? = some t := by rw [run_other_threads σ₁ i h1]; exact ht
  have s1 := step_unsubscribe (runSched c σ₁) i id t rest e1 hpc hprog
  by_cases hid : id < (runSched c σ₁).s.subs.length
  · simp only [hid, if_true] at s1
    refine ⟨_, s1, rfl, Or.inr ⟨rfl, ?_⟩⟩
    intro σ₂ h2
    have e2 := s1
    rw [← run_other_threads σ₂ i h2] at e2
    exact ⟨_, step_closing _ i id _ e2 rfl, rfl, rfl⟩
  · simp only [hid, if_false] at s1
    exact ⟨_, s1, rfl, Or.inl hpc⟩

/-- **post_after_stop_fails (any interleaving)** — once some goroutine's `Stop` step has
happened, the dispatcher stays stopped under every later step of every goroutine, so every
`Post` whose first step comes later takes the `ErrMuxClosed` branch (it posts nothing: the
thread's `posted` log is unchanged and it does not enter the delivering state). -/
theorem conc_post_after_stop_fails (c : CState) (hst : c.s.stopped = true) (sched : List Nat)
    (i : Nat) (t : Thread) (e : Ev) (rest : List COp)
    (ht : (runSched c sched).threads[i]? = some t) (hpc : t.pc = .idle) (hprog : t.prog = .post e :: rest) :
    (stepThread (runSched c sched) i).threads[i]? = some { t with prog := rest } ∧
    (stepThread (runSched c sched) i).log = (runSched c sched).log := by
  exact step_post_stopped _ i t e rest ht hpc hprog (run_stopped sched c hst)

end Concurrent

/-! ### lock order: the held-before relation of an accepted skeleton has no cycle -/

/-- `HeldBefore sk a b`: along some chain of functions, a mutex of class `b` is acquired while
    one of class `a` is held (transitive closure of `lockEdges`) -/
inductive HeldBefore (sk : LockSkel) : String → String → Prop
  | edge {a b} : (a, b) ∈ lockEdges sk → HeldBefore sk a b
  | trans {a b c} : HeldBefore sk a b → HeldBefore sk b c → HeldBefore sk a c

theorem heldBefore_rank (sk : LockSkel) (h : lockOrderOK sk = true) {a b : String} (hb : HeldBefore sk a b) :
    ∃ x y, lockRank a = some x ∧ lockRank b = some y ∧ x < y := by
  induction hb with
  | edge he =>
    simp only [lockOrderOK, Bool.and_eq_true, List.all_eq_true] at h
    have := h.2 _ he
    simp only [edgeOK] at this
    split at this
    · rename_i x y hx hy
      exact ⟨x, y, hx, hy, by simpa using this⟩
    · cases this
  | trans _ _ ih1 ih2 =>
    obtain ⟨x, y, hx, hy, hxy⟩ := ih1
    obtain ⟨y', z, hy', hz, hyz⟩ := ih2
    rw [hy] at hy'
    cases hy'
    exact ⟨x, z, hx, hz, Nat.lt_trans hxy hyz⟩

/-- **lock_order_acyclic** — for EVERY lock skeleton the checker accepts (in particular the one
extracted from event.go, `Ties.C39.lock_order_tied`): no mutex class is (transitively) held
before itself. A cyclic wait between goroutines — `Unsubscribe` holding `closeMu` and waiting
for `dispatcher.mutex` while `Stop` holds `dispatcher.mutex` and waits for that `closeMu` —
needs such a cycle; without one every critical section ends without waiting for a
higher-or-equal ranked mutex, which is what the atomic steps of `Model/EventConc.lean` assume. -/
theorem lock_order_acyclic (sk : LockSkel) (h : lockOrderOK sk = true) (a : String) : ¬ HeldBefore sk a a := by
  intro hb
  obtain ⟨x, y, hx, hy, hxy⟩ := heldBefore_rank sk h hb
  rw [hx] at hy
  cases hy
  exact Nat.lt_irrefl _ hxy

/-- test: the skeleton of the seeded change C39-sub2 (Unsubscribe: closeMu, then del) is rejected -/
example : lockOrderOK [("Dispatcher.Stop", false, "Dispatcher.mutex", []),
    ("Dispatcher.Stop", true, "Subscription.closewait", ["Dispatcher.mutex"]),
    ("Dispatcher.del", false, "Dispatcher.mutex", []),
    ("Subscription.Unsubscribe", false, "Subscription.closeMu", []),
    ("Subscription.Unsubscribe", true, "Dispatcher.del", ["Subscription.closeMu"]),
    ("Subscription.closewait", false, "Subscription.closeMu", [])] = false := by decide

/-! ### the hypotheses are satisfiable / the model does what the comments say (tests) -/

/-- test: a history with two subscribers, a full buffer (cap 2) and an unsubscribe -/
def sampleOps : List Op :=
  [.subscribe [0, 1], .subscribe [1], .post ⟨1, 10⟩, .post ⟨0, 11⟩, .post ⟨1, 12⟩, .recv 0,
   .post ⟨1, 13⟩, .unsubscribe 1, .post ⟨1, 14⟩, .stop, .post ⟨1, 15⟩]

example : (View.run 2 0 View.init sampleOps).offered = [⟨1, 10⟩, ⟨0, 11⟩, ⟨1, 12⟩, ⟨1, 13⟩, ⟨1, 14⟩] := by decide
example : (View.run 2 0 View.init sampleOps).delivered = [⟨1, 10⟩, ⟨0, 11⟩, ⟨1, 13⟩] := by decide
example : (View.run 2 1 View.init sampleOps).delivered = [⟨1, 10⟩, ⟨1, 12⟩] := by decide
example : ((final (init 2) sampleOps).subs.map (·.buf)) = [[⟨0, 11⟩, ⟨1, 13⟩], [⟨1, 10⟩, ⟨1, 12⟩]] := by decide
example : (results (init 2) sampleOps).getLast? = some .muxClosed := by decide
example : (View.run 8 0 View.init sampleOps).offered.length ≤ 8 := by decide
/-- test (behaviour mirrored from the code, not required by the property): a failed
`Subscribe(0,1,0)` leaves a ghost subscription registered under 0 and 1 -/
example : (subscribe (init 4) [0, 1, 0]).2 = .subDup ∧ (subscribe (init 4) [0, 1, 0]).1.subm = [(0, [0]), (1, [0])] := by
  decide
/-- test (concurrent model): two posters and an unsubscriber, one particular schedule -/
example :
    let c := EventConc.runSched (EventConc.initC 4 [[.subscribe [0], .unsubscribe 0], [.post ⟨0, 1⟩, .post ⟨0, 2⟩], [.post ⟨0, 7⟩]])
      [0, 1, 2, 1, 2, 1, 0, 1, 0, 1, 1]
    EventConc.deliveredFrom c 1 0 = [⟨0, 1⟩] ∧ EventConc.deliveredFrom c 2 0 = [⟨0, 7⟩] := by decide
/-- test: a subscription with an empty type list is not closed by `Stop` -/
example : (final (init 4) [.subscribe [], .subscribe [3], .stop]).subs.map (·.closed) = [false, true] := by decide

end BytomModel.Props.C39
