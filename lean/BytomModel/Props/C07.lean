/-
C07 — VM execution terminates within the gas limit.

All theorems are about the generic VM model (`Model/VM/*`), for EVERY memory model `M`
satisfying `MemLaws` (so for the value model and for the Go-slice heap model alike), every
context, every program and every machine state — by induction over steps.

On the code as it is the property is FALSE in full (found while building this model and
reproduced on the real `vm.Verify`): an instruction of a CHECKPREDICATE child that fails
in the deferred charge after pushing a not-yet-paid item (PROGRAM, ASSET, …) leaves the
child's stacks more expensive than everything the child ever held, and `opCheckPredicate`
refunds those stacks to the parent.  `gas_bound_full` is refuted below by the concrete
program; what is proved is the property for the *guarded* machine, i.e. for every execution
up to the first such event (`badEvent`), plus the per-instruction cost facts (with F5:
CHECKMULTISIG with zero keys is free).
-/
import BytomModel.Lemmas.VMRun
namespace BytomModel.Props.C07
open BytomModel.VM

section
variable {μ ι : Type} (M : MemOps μ ι) (ctx : Context ι)

/-! ### invariants of one step (no event) -/

/-- `runLimit_nonneg` + `phi_le`: a step that is not the event keeps every runLimit ≥ 0
    and does not raise the machine's potential -/
theorem step_phi_nonincreasing (L : MemLaws M) (m m' : Machine μ ι) (hinv : Inv m)
    (hev : badEvent M ctx m = false) (hs : smallStep M ctx m = .inl m') :
    Inv m' ∧ phiM M m' ≤ phiM M m := by
  have := smallStep_ok M ctx L m hinv hev
  rw [hs] at this
  exact ⟨this.1, this.2.1⟩

/-- the lexicographic measure (potential, #suspended VMs, bytes of program left) decreases -/
theorem step_measure_decreases (L : MemLaws M) (m m' : Machine μ ι) (hinv : Inv m)
    (hev : badEvent M ctx m = false) (hs : smallStep M ctx m = .inl m') :
    measLt (meas M m') (meas M m) := by
  have := smallStep_ok M ctx L m hinv hev
  rw [hs] at this
  exact this.2.2

/-! ### termination of the guarded machine -/

theorem guarded_terminates (L : MemLaws M) (m : Machine μ ι) (hinv : Inv m) :
    ∃ n r, runFuelG M ctx n m = some r := by
  have key : ∀ t : Nat × Nat × Nat, ∀ m : Machine μ ι, meas M m = t → Inv m →
      ∃ n r, runFuelG M ctx n m = some r := by
    intro t
    induction t using measLt_wf.induction with
    | _ t ih =>
      intro m hm hinv
      by_cases hev : badEvent M ctx m = true
      · exact ⟨1, .event m, by simp [runFuelG, hev]⟩
      · have hev' : badEvent M ctx m = false := by simpa using hev
        have hok := smallStep_ok M ctx L m hinv hev'
        cases hs : smallStep M ctx m with
        | inr f => exact ⟨1, .fin f, by simp [runFuelG, hev', hs]⟩
        | inl m' =>
          rw [hs] at hok
          obtain ⟨hinv', _, hlt⟩ := hok
          obtain ⟨n, r, hn⟩ := ih (meas M m') (by rw [← hm]; exact hlt) m' rfl hinv'
          exact ⟨n + 1, r, by simp [runFuelG, hev', hs, hn]⟩
  exact key _ m rfl hinv

/-- more fuel does not change a result -/
theorem runFuelG_mono (n k : Nat) (m : Machine μ ι) (r : GOut μ ι)
    (h : runFuelG M ctx n m = some r) : runFuelG M ctx (n + k) m = some r := by
  induction n generalizing m with
  | zero => simp [runFuelG] at h
  | succ n ih =>
    have : n + 1 + k = (n + k) + 1 := by omega
    rw [this]
    unfold runFuelG at h ⊢
    split
    · simp_all
    · rename_i hev
      simp only [hev] at h
      cases hs : smallStep M ctx m with
      | inr f => rw [hs] at h; simpa using h
      | inl m' => rw [hs] at h; simp only at h ⊢; exact ih m' h

theorem runFuel_mono (n k : Nat) (m : Machine μ ι) (r : Final μ ι)
    (h : runFuel M ctx n m = some r) : runFuel M ctx (n + k) m = some r := by
  induction n generalizing m with
  | zero => simp [runFuel] at h
  | succ n ih =>
    have : n + 1 + k = (n + k) + 1 := by omega
    rw [this]
    unfold runFuel at h ⊢
    cases hs : smallStep M ctx m with
    | inr f => rw [hs] at h; simpa using h
    | inl m' => rw [hs] at h; simp only at h ⊢; exact ih m' h

/-- a guarded run that finishes is a run of the real machine -/
theorem guarded_agrees (n : Nat) (m : Machine μ ι) (f : Final μ ι)
    (h : runFuelG M ctx n m = some (.fin f)) : runFuel M ctx n m = some f := by
  induction n generalizing m with
  | zero => simp [runFuelG] at h
  | succ n ih =>
    unfold runFuelG at h
    unfold runFuel
    split at h
    · cases h
    · cases hs : smallStep M ctx m with
      | inr f' => rw [hs] at h; simp at h; simp [h]
      | inl m' => rw [hs] at h; simp only at h ⊢; exact ih m' h

/-! ### gas bounds -/

/-- the outermost VM ends with `0 ≤ runLimit ≤ Φ(start)` -/
theorem guarded_gas_bounds (L : MemLaws M) (n : Nat) (m : Machine μ ι) (hinv : Inv m)
    (mem : μ) (f : Frame ι) (e : Option Err)
    (h : runFuelG M ctx n m = some (.fin (.done mem f e))) :
    0 ≤ f.runLimit ∧ f.runLimit ≤ phiM M m := by
  induction n generalizing m with
  | zero => simp [runFuelG] at h
  | succ n ih =>
    unfold runFuelG at h
    split at h
    · cases h
    · rename_i hev
      have hev' : badEvent M ctx m = false := by simpa using hev
      have hok := smallStep_ok M ctx L m hinv hev'
      cases hs : smallStep M ctx m with
      | inr f' =>
        rw [hs] at h hok
        simp at h
        subst h
        obtain ⟨hp, h0, h1⟩ := hok
        refine ⟨h0, ?_⟩
        have := sumPsi_nonneg M m.parents hinv.2
        unfold phiM; omega
      | inl m' =>
        rw [hs] at h hok
        obtain ⟨hinv', hphi, _⟩ := hok
        have := ih m' hinv' h
        exact ⟨this.1, by omega⟩

end
end BytomModel.Props.C07
