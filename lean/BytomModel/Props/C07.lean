/-
C07 — VM execution terminates within the gas limit.

All theorems are about the generic VM model (`Model/VM/*`), for EVERY memory model `M`
satisfying `MemLaws` (so for the value model and for the Go-slice heap model alike), every
context, every program and every machine state — by induction over steps.

On the code as it is the property is FALSE in full (found while building this model and
reproduced on the real `vm.Verify`): an instruction of a CHECKPREDICATE child that fails
in the deferred charge after pushing a not-yet-paid item (PROGRAM, ASSET, …) leaves the
child's stacks more expensive than everything the child ever held, and `opCheckPredicate`
refunds those stacks to the parent.  `gas_bound_full` is refuted below by the concrete
program; what is proved is the property for the *guarded* machine, i.e. for every execution
up to the first such event (`badEvent`), plus the per-instruction cost facts (with F5:
CHECKMULTISIG with zero keys is free).
-/
import BytomModel.Lemmas.VMRun
namespace BytomModel.Props.C07
open BytomModel.VM

section
variable {μ ι : Type} (M : MemOps μ ι) (ctx : Context ι)

/-! ### invariants of one step (no event) -/

/-- `runLimit_nonneg` + `phi_le`: a step that is not the event keeps every runLimit ≥ 0
    and does not raise the machine's potential -/
theorem step_phi_nonincreasing (L : MemLaws M) (m m' : Machine μ ι) (hinv : Inv m)
    (hev : badEvent M ctx m = false) (hs : smallStep M ctx m = .inl m') :
    Inv m' ∧ phiM M m' ≤ phiM M m := by
  have := smallStep_ok M ctx L m hinv hev
  rw [hs] at this
  exact ⟨this.1, this.2.1⟩

/-- the lexicographic measure (potential, #suspended VMs, bytes of program left) decreases -/
theorem step_measure_decreases (L : MemLaws M) (m m' : Machine μ ι) (hinv : Inv m)
    (hev : badEvent M ctx m = false) (hs : smallStep M ctx m = .inl m') :
    measLt (meas M m') (meas M m) := by
  have := smallStep_ok M ctx L m hinv hev
  rw [hs] at this
  exact this.2.2

/-! ### termination of the guarded machine -/

theorem guarded_terminates (L : MemLaws M) (m : Machine μ ι) (hinv : Inv m) :
    ∃ n r, runFuelG M ctx n m = some r := by
  have key : ∀ t : Nat × Nat × Nat, ∀ m : Machine μ ι, meas M m = t → Inv m →
      ∃ n r, runFuelG M ctx n m = some r := by
    intro t
    induction t using measLt_wf.induction with
    | _ t ih =>
      intro m hm hinv
      by_cases hev : badEvent M ctx m = true
      · exact ⟨1, .event m, by simp [runFuelG, hev]⟩
      · have hev' : badEvent M ctx m = false := by simpa using hev
        have hok := smallStep_ok M ctx L m hinv hev'
        cases hs : smallStep M ctx m with
        | inr f => exact ⟨1, .fin f, by simp [runFuelG, hev', hs]⟩
        | inl m' =>
          rw [hs] at hok
          obtain ⟨hinv', _, hlt⟩ := hok
          obtain ⟨n, r, hn⟩ := ih (meas M m') (by rw [← hm]; exact hlt) m' rfl hinv'
          exact ⟨n + 1, r, by simp [runFuelG, hev', hs, hn]⟩
  exact key _ m rfl hinv

/-- more fuel does not change a result -/
theorem runFuelG_mono (n k : Nat) (m : Machine μ ι) (r : GOut μ ι)
    (h : runFuelG M ctx n m = some r) : runFuelG M ctx (n + k) m = some r := by
  induction n generalizing m with
  | zero => simp [runFuelG] at h
  | succ n ih =>
    have : n + 1 + k = (n + k) + 1 := by omega
    rw [this]
    unfold runFuelG at h ⊢
    split
    · simp_all
    · rename_i hev
      simp only [hev] at h
      cases hs : smallStep M ctx m with
      | inr f => rw [hs] at h; simpa using h
      | inl m' => rw [hs] at h; simp only at h ⊢; exact ih m' h

theorem runFuel_mono (n k : Nat) (m : Machine μ ι) (r : Final μ ι)
    (h : runFuel M ctx n m = some r) : runFuel M ctx (n + k) m = some r := by
  induction n generalizing m with
  | zero => simp [runFuel] at h
  | succ n ih =>
    have : n + 1 + k = (n + k) + 1 := by omega
    rw [this]
    unfold runFuel at h ⊢
    cases hs : smallStep M ctx m with
    | inr f => rw [hs] at h; simpa using h
    | inl m' => rw [hs] at h; simp only at h ⊢; exact ih m' h

/-- a guarded run that finishes is a run of the real machine -/
theorem guarded_agrees (n : Nat) (m : Machine μ ι) (f : Final μ ι)
    (h : runFuelG M ctx n m = some (.fin f)) : runFuel M ctx n m = some f := by
  induction n generalizing m with
  | zero => simp [runFuelG] at h
  | succ n ih =>
    unfold runFuelG at h
    unfold runFuel
    split at h
    · cases h
    · cases hs : smallStep M ctx m with
      | inr f' => rw [hs] at h; simp at h; simp [h]
      | inl m' => rw [hs] at h; simp only at h ⊢; exact ih m' h

/-! ### gas bounds -/

/-- the outermost VM ends with `0 ≤ runLimit ≤ Φ(start)` -/
theorem guarded_gas_bounds (L : MemLaws M) (n : Nat) (m : Machine μ ι) (hinv : Inv m)
    (mem : μ) (f : Frame ι) (e : Option Err)
    (h : runFuelG M ctx n m = some (.fin (.done mem f e))) :
    0 ≤ f.runLimit ∧ f.runLimit ≤ phiM M m := by
  induction n generalizing m with
  | zero => simp [runFuelG] at h
  | succ n ih =>
    unfold runFuelG at h
    split at h
    · cases h
    · rename_i hev
      have hev' : badEvent M ctx m = false := by simpa using hev
      have hok := smallStep_ok M ctx L m hinv hev'
      cases hs : smallStep M ctx m with
      | inr f' =>
        rw [hs] at h hok
        simp at h
        subst h
        obtain ⟨hp, h0, h1⟩ := hok
        refine ⟨h0, ?_⟩
        have := sumPsi_nonneg M m.parents hinv.2
        unfold phiM; omega
      | inl m' =>
        rw [hs] at h hok
        obtain ⟨hinv', hphi, _⟩ := hok
        have := ih m' hinv' h
        exact ⟨this.1, by omega⟩

/-! ### `Verify` -/

/-- the initial pushes are potential-neutral; when one fails, runLimit is 0 -/
theorem pushAll_spec (push : ι → OpM (St μ ι) Unit)
    (hpush : ∀ x (s : St μ ι), 0 ≤ s.f.runLimit → match push x s with
      | .ok _ s' => frameA M s'.f = frameA M s.f ∧ 0 ≤ s'.f.runLimit
      | .err _ s' => s'.f.runLimit = 0
      | .panic => True)
    (xs : List ι) (s : St μ ι) (h : 0 ≤ s.f.runLimit) :
    match pushAll push xs s with
      | .ok _ s' => frameA M s'.f = frameA M s.f ∧ 0 ≤ s'.f.runLimit
      | .err _ s' => s'.f.runLimit = 0
      | .panic => True := by
  induction xs generalizing s with
  | nil => simp [pushAll]; exact h
  | cons x xs ih =>
    simp only [pushAll, bind_run]
    have hp := hpush x s h
    cases hx : push x s with
    | panic => simp
    | err e s1 => rw [hx] at hp; simpa using hp
    | ok u s1 =>
      rw [hx] at hp
      simp only [Res.bindK_ok]
      have := ih s1 hp.2
      cases hr : pushAll push xs s1 with
      | panic => trivial
      | err e s2 => rw [hr] at this; exact this
      | ok u2 s2 => rw [hr] at this; exact ⟨by omega, this.2⟩

theorem pushAlt_spec (x : ι) (s : St μ ι) (h : 0 ≤ s.f.runLimit) : match pushAlt M x s with
      | .ok _ s' => frameA M s'.f = frameA M s.f ∧ 0 ≤ s'.f.runLimit
      | .err _ s' => s'.f.runLimit = 0
      | .panic => True := by
  obtain ⟨mem, ⟨prog, pc, nextPC, rl, d, data, alt, depth, er⟩⟩ := s
  dsimp only at h
  simp only [pushAlt, bind_run, applyCost_run]
  by_cases hc : itemCost M x > rl
  · simp [hc]
  · rw [if_neg hc]
    simp [frameA, stackCost, itemCost] at hc ⊢
    constructor <;> omega

theorem pushData_spec (x : ι) (s : St μ ι) (h : 0 ≤ s.f.runLimit) : match pushItem M x false s with
      | .ok _ s' => frameA M s'.f = frameA M s.f ∧ 0 ≤ s'.f.runLimit
      | .err _ s' => s'.f.runLimit = 0
      | .panic => True := by
  obtain ⟨mem, ⟨prog, pc, nextPC, rl, d, data, alt, depth, er⟩⟩ := s
  dsimp only at h
  rw [pushItem_imm]
  by_cases hc : itemCost M x > rl
  · simp [hc]
  · rw [if_neg hc]
    simp [frameA, stackCost, itemCost] at hc ⊢
    constructor <;> omega

theorem initPushes_spec (mem : μ) (limit : Int) (h : 0 ≤ limit) :
    match initPushes M ctx ⟨mem, initFrame ctx limit⟩ with
      | .ok _ s' => frameA M s'.f = limit ∧ 0 ≤ s'.f.runLimit
      | .err _ s' => s'.f.runLimit = 0
      | .panic => True := by
  simp only [initPushes, bind_run]
  have h0 : frameA M (initFrame ctx limit) = limit := by simp [frameA, initFrame, stackCost]
  have h1 := pushAll_spec M (pushAlt M) (pushAlt_spec M) ctx.stateData ⟨mem, initFrame ctx limit⟩ h
  cases hx : pushAll (pushAlt M) ctx.stateData ⟨mem, initFrame ctx limit⟩ with
  | panic => simp
  | err e s1 => rw [hx] at h1; simpa using h1
  | ok u s1 =>
    rw [hx] at h1
    simp only [Res.bindK_ok]
    have h2 := pushAll_spec M (fun x => pushItem M x false) (pushData_spec M) ctx.arguments s1 h1.2
    cases hy : pushAll (fun x => pushItem M x false) ctx.arguments s1 with
    | panic => trivial
    | err e s2 => rw [hy] at h2; exact h2
    | ok u2 s2 => rw [hy] at h2; exact ⟨by have := h1.1; simp only at this; omega, h2.2⟩

/-- **gas bounds (partial).**  For every memory model, context, program, arguments and
    limit ≥ 0: if `Verify` returns without the execution having hit the "unpaid refund"
    event, then `0 ≤ gasLeft ≤ gasLimit`. -/
theorem verify_gas_bounds_partial (L : MemLaws M) (fuel : Nat) (mem : μ) (limit : Int) (h : 0 ≤ limit)
    (r : VerifyResult μ ι) (hr : verifyFuelG M ctx fuel mem limit = some (.result r)) :
    0 ≤ r.gasLeft ∧ r.gasLeft ≤ limit := by
  unfold verifyFuelG at hr
  split at hr
  · simp at hr; subst hr; exact ⟨h, le_refl _⟩
  · have hi := initPushes_spec M ctx mem limit h
    cases hx : initPushes M ctx ⟨mem, initFrame ctx limit⟩ with
    | panic => rw [hx] at hr; simp at hr; subst hr; exact ⟨le_refl _, h⟩
    | err e s =>
      rw [hx] at hr hi; simp at hr; subst hr
      simp only at hi ⊢
      rw [hi]; exact ⟨le_refl _, h⟩
    | ok u s =>
      rw [hx] at hr hi
      simp only at hr hi
      have hinv : Inv (⟨s.mem, s.f, []⟩ : Machine μ ι) := ⟨hi.2, by simp⟩
      cases hg : runFuelG M ctx fuel ⟨s.mem, s.f, []⟩ with
      | none => rw [hg] at hr; simp at hr
      | some o =>
        rw [hg] at hr
        cases o with
        | event m => simp at hr
        | fin f =>
          cases f with
          | panic => simp at hr; subst hr; exact ⟨le_refl _, h⟩
          | done mem' f e =>
            simp at hr; subst hr
            have := guarded_gas_bounds M ctx L fuel _ hinv mem' f e hg
            simp only [phiM, sumPsi] at this
            simp only
            omega

/-- **termination (partial).**  For every memory model, context and limit ≥ 0 the guarded
    `Verify` terminates: some fuel suffices (and then every larger fuel gives the same answer). -/
theorem verify_terminates_partial (L : MemLaws M) (mem : μ) (limit : Int) (h : 0 ≤ limit) :
    ∃ fuel out, verifyFuelG M ctx fuel mem limit = some out := by
  unfold verifyFuelG
  by_cases hv : ctx.vmVersion ≠ 1
  · exact ⟨0, .result ⟨limit, some .unsupportedVM, none⟩, by simp [hv]⟩
  · simp only [hv, if_false]
    have hi := initPushes_spec M ctx mem limit h
    cases hx : initPushes M ctx ⟨mem, initFrame ctx limit⟩ with
    | panic => exact ⟨0, _, rfl⟩
    | err e s => exact ⟨0, _, rfl⟩
    | ok u s =>
      rw [hx] at hi
      have hinv : Inv (⟨s.mem, s.f, []⟩ : Machine μ ι) := ⟨hi.2, by simp⟩
      obtain ⟨n, r, hn⟩ := guarded_terminates M ctx L _ hinv
      refine ⟨n, ?_⟩
      simp only [hn]
      cases r with
      | event m => exact ⟨_, rfl⟩
      | fin f =>
        cases f with
        | panic => exact ⟨_, rfl⟩
        | done mem' f e => exact ⟨_, rfl⟩

/-- a guarded `Verify` that returns a result is the real `Verify` -/
theorem verifyG_agrees (fuel : Nat) (mem : μ) (limit : Int) (r : VerifyResult μ ι)
    (hr : verifyFuelG M ctx fuel mem limit = some (.result r)) :
    verifyFuel M ctx fuel mem limit = some r := by
  unfold verifyFuelG at hr
  unfold verifyFuel
  split at hr
  · rename_i hv; simp at hr; simp [hv, hr]
  · rename_i hv
    simp only [hv, if_false]
    cases hx : initPushes M ctx ⟨mem, initFrame ctx limit⟩ with
    | panic => rw [hx] at hr; simpa using hr
    | err e s => rw [hx] at hr; simpa using hr
    | ok u s =>
      rw [hx] at hr
      simp only at hr ⊢
      cases hg : runFuelG M ctx fuel ⟨s.mem, s.f, []⟩ with
      | none => rw [hg] at hr; simp at hr
      | some o =>
        rw [hg] at hr
        cases o with
        | event m => simp at hr
        | fin f =>
          rw [guarded_agrees M ctx fuel _ f hg]
          cases f with
          | panic => simpa using hr
          | done mem' f e => simpa using hr

/-! ### what an instruction costs -/

/-- **cost table.**  An instruction that completes takes at least `stepCost op` from the
    potential of its VM (`baseCost`: 1, 2, 3, 4, 8, 16, 64, 256, 1024 …; expansion NOPs: 1). -/
theorem instruction_cost (L : MemLaws M) (mem : μ) (cur : Frame ι) (h : 0 ≤ cur.runLimit) (s : St μ ι)
    (hs : frameStep M ctx ⟨mem, cur⟩ = .ok .continue_ s) :
    ∃ inst, parseOpL (M.len cur.prog) (M.read mem cur.prog) cur.pc = .ok inst ∧
      frameA M s.f + stepCost inst.op ≤ frameA M cur := by
  have := frameStep_ok M ctx L ⟨mem, cur⟩ h
  rw [hs] at this
  simp only [FrameOK, ResP_ok] at this
  obtain ⟨inst, hp, hA, _⟩ := this
  exact ⟨inst, hp, hA⟩

/-- **every instruction costs ≥ 1 (partial)**: every completed instruction other than
    CHECKMULTISIG takes at least one unit of potential -/
theorem every_step_costs_one_partial (L : MemLaws M) (mem : μ) (cur : Frame ι) (h : 0 ≤ cur.runLimit)
    (s : St μ ι) (hs : frameStep M ctx ⟨mem, cur⟩ = .ok .continue_ s)
    (hop : ∀ inst, parseOpL (M.len cur.prog) (M.read mem cur.prog) cur.pc = .ok inst → inst.op ≠ 0xad) :
    frameA M s.f + 1 ≤ frameA M cur := by
  obtain ⟨inst, hp, hA⟩ := instruction_cost M ctx L mem cur h s hs
  have h173 := hop inst hp
  have : 1 ≤ stepCost inst.op := by
    unfold stepCost; split
    · omega
    · exact baseCost_pos inst.op h173
  omega

/-- starting a CHECKPREDICATE child costs the whole machine at least 64 up front … -/
theorem checkpredicate_entry_cost (L : MemLaws M) (m m' : Machine μ ι) (hinv : Inv m)
    (hs : smallStep M ctx m = .inl m') (hlen : m'.parents.length = m.parents.length + 1) :
    phiM M m' + 64 ≤ phiM M m := by
  obtain ⟨mem0, cur, parents⟩ := m
  obtain ⟨hcur, hpar⟩ := hinv
  dsimp only at hcur hpar
  have hfin : ∀ (mem : μ) (child : Frame ι) (e : Option Err), 0 ≤ child.runLimit →
      finish M mem child e parents = .inl m' → False := by
    intro mem child e hc hf
    cases parents with
    | nil => rw [finish_nil] at hf; cases hf
    | cons p ps =>
      obtain ⟨m2, hm2, hp2, _⟩ := finish_cons M L mem child e p ps hc (hpar p (by simp))
      rw [hm2] at hf; cases hf
      rw [hp2] at hlen; simp at hlen; omega
  unfold smallStep at hs
  dsimp only at hs hlen
  split at hs
  · exact absurd hs (fun h => hfin mem0 cur none hcur h)
  · have hfs := frameStep_ok M ctx L ⟨mem0, cur⟩ hcur
    cases hstep : frameStep M ctx ⟨mem0, cur⟩ with
    | panic => rw [hstep] at hs; cases hs
    | err e s =>
      rw [hstep] at hs hfs
      simp only [FrameOK, ResP_err] at hfs
      exact absurd hs (fun h => hfin s.mem s.f (some e) hfs.1 h)
    | ok a s =>
      rw [hstep] at hs hfs
      cases a with
      | continue_ => simp only at hs; cases hs; simp at hlen
      | enterChild c =>
        simp only at hs; cases hs
        simp only [FrameOK, ResP_ok] at hfs
        obtain ⟨hA, hrl, hlim, hdef, hn, _⟩ := hfs
        have htd := stackCost_take_drop M s.f.data c.n
        unfold phiM frameA at *
        simp only [sumPsi, parentPsi, frameA, stackCost] at *
        omega

/-- … and the return into the parent refunds exactly the child's final potential
    (`child_gas_conserved`): nothing is lost, and — because the child's stacks are refunded
    even when it failed — nothing is checked either. -/
theorem child_refund_exact (L : MemLaws M) (mem : μ) (child : Frame ι) (e : Option Err) (p : Frame ι)
    (ps : List (Frame ι)) (hc : 0 ≤ child.runLimit) (hp : ParentInv p) :
    ∃ m', finish M mem child e (p :: ps) = .inl m' ∧
      frameA M m'.cur = frameA M child + (frameA M p - p.deferred) := by
  obtain ⟨m', h1, _, h3, _⟩ := finish_cons M L mem child e p ps hc hp
  exact ⟨m', h1, h3⟩

end
/-! ### int64 faithfulness of the stored values -/

section
variable {μ ι : Type} (M : MemOps μ ι) (ctx : Context ι)

/-- machine states reachable by small steps of the guarded machine -/
inductive ReachG : Machine μ ι → Machine μ ι → Prop
  | refl (m : Machine μ ι) : ReachG m m
  | step {m0 m m' : Machine μ ι} : ReachG m0 m → badEvent M ctx m = false →
      smallStep M ctx m = .inl m' → ReachG m0 m'

theorem reach_inv_phi (L : MemLaws M) (m0 m : Machine μ ι) (h0 : Inv m0) (hr : ReachG M ctx m0 m) :
    Inv m ∧ phiM M m ≤ phiM M m0 := by
  induction hr with
  | refl => exact ⟨h0, le_refl _⟩
  | step _ hev hs ih =>
    have := step_phi_nonincreasing M ctx L _ _ ih.1 hev hs
    exact ⟨this.1, by omega⟩

theorem sumPsi_mem_le (ps : List (Frame ι)) (h : ∀ p ∈ ps, ParentInv p) (p : Frame ι) (hp : p ∈ ps) :
    parentPsi M p ≤ sumPsi M ps := by
  induction ps with
  | nil => simp at hp
  | cons q qs ih =>
    have hq := h q (by simp)
    have hqn : 0 ≤ parentPsi M q := by
      have := frameA_nonneg M q hq.1; have := hq.2; unfold parentPsi; omega
    have hrest := sumPsi_nonneg M qs (fun x hx => h x (by simp [hx]))
    rcases List.mem_cons.mp hp with rfl | hp
    · simp only [sumPsi]; omega
    · have := ih (fun x hx => h x (by simp [hx])) hp
      simp only [sumPsi]; omega

/-- every int64 the machine stores lies in `[-B, B]` where `B` bounds the potential -/
def ValuesWithin (B : Int) (m : Machine μ ι) : Prop :=
  (0 ≤ m.cur.runLimit ∧ m.cur.runLimit ≤ B ∧ stackCost M.len m.cur.data ≤ B ∧ stackCost M.len m.cur.alt ≤ B) ∧
  ∀ p ∈ m.parents, 0 ≤ p.runLimit ∧ p.runLimit ≤ B ∧ -B ≤ p.deferred ∧ p.deferred ≤ 0 ∧
    stackCost M.len p.data ≤ B ∧ stackCost M.len p.alt ≤ B

theorem values_within_of_phi (m : Machine μ ι) (hinv : Inv m) (B : Int) (hB : phiM M m ≤ B) :
    ValuesWithin M B m := by
  obtain ⟨hc, hp⟩ := hinv
  have hs := sumPsi_nonneg M m.parents hp
  have h1 := stackCost_nonneg M m.cur.data
  have h2 := stackCost_nonneg M m.cur.alt
  have hA : frameA M m.cur ≤ B := by unfold phiM at hB; omega
  refine ⟨⟨hc, by unfold frameA at hA; omega, by unfold frameA at hA; omega, by unfold frameA at hA; omega⟩, ?_⟩
  intro p hpm
  have hpi := hp p hpm
  have hle := sumPsi_mem_le M m.parents hp p hpm
  have hA0 := frameA_nonneg M m.cur hc
  have hphi : phiM M m = frameA M m.cur + sumPsi M m.parents := rfl
  have hpsi : parentPsi M p ≤ B := by omega
  have h3 := stackCost_nonneg M p.data
  have h4 := stackCost_nonneg M p.alt
  have hd := hpi.2
  have hr := hpi.1
  have hpsi' : p.runLimit + stackCost M.len p.data + stackCost M.len p.alt - p.deferred ≤ B := hpsi
  exact ⟨hr, by omega, by omega, by omega, by omega, by omega⟩

/-- **int64 faithfulness (stored values).**  In every state the guarded machine reaches from a
    state with potential ≤ `B`, every stored runLimit, pending deferredCost and stack cost lies in
    `[-B, B]`.  With `B = gasLimit ≤ 2^63 − 1` (`Verify` starts with potential = limit,
    `initPushes_spec`) no stored value leaves int64, so unbounded `Int` is the Go arithmetic
    for them.  (Values that exist only inside one handler are sums of at most a handful of
    such terms; that they too stay within int64 for limits up to the consensus maximum is
    argued, not mechanised.) -/
theorem int64_faithful (L : MemLaws M) (m0 m : Machine μ ι) (h0 : Inv m0) (hr : ReachG M ctx m0 m)
    (B : Int) (hB : phiM M m0 ≤ B) : ValuesWithin M B m := by
  have := reach_inv_phi M ctx L m0 m h0 hr
  exact values_within_of_phi M m this.1 B (by omega)

/-- the program counter of a state about to execute an instruction is below 2^31 -/
theorem pc_lt_two31 (mem : μ) (cur : Frame ι) (inst : Inst)
    (h : parseOpL (M.len cur.prog) (M.read mem cur.prog) cur.pc = .ok inst) : cur.pc < 2 ^ 31 := by
  unfold parseOpL at h
  simp only at h
  split at h
  · cases h
  · rename_i hl
    split at h
    · cases h
    · rename_i hpc
      unfold maxInt32 at hl
      omega

end

/-! ### the full statements, refuted on the code as it is (value model, concrete witnesses) -/

def dummyCtx (code : Bytes) (args : List Bytes) : Context Bytes :=
  { vmVersion := 1, code := code, stateData := [], arguments := args, entryID := [],
    txVersion := some 1, blockHeight := none, assetID := none, amount := none, destPos := none,
    spentOutputID := none, txSigHash := none, checkOutput := none,
    verifySig := fun _ _ _ => false, sha256 := fun _ => [], sha3 := fun _ => [], ripemd160 := fun _ => [] }

/-- `DATA_75 <75 bytes> DROP  0  DATA_1 <PROGRAM>  1  CHECKPREDICATE  NOT`:
    the child VM gets 1 gas, runs PROGRAM (pushes the 82-byte program with deferred cost),
    fails in the deferred charge, and its 90-unit stack is refunded to the parent. -/
def inflationProg : Bytes :=
  [0x4b] ++ List.replicate 75 0xee ++ [0x75, 0x00, 0x01, 0xc4, 0x51, 0xc0, 0x91]

/-- the real `vm.Verify` answers exactly this: gasLeft 10010 for limit 10000, no error -/
theorem inflation_witness :
    (verifyFuel valueMem (dummyCtx inflationProg []) 20 () 10000).map (fun r => (r.gasLeft, r.err))
      = some (10010, none) := by decide +kernel

/-- `0 ≤ gasLeft ≤ gasLimit` for every program, argument list and limit -/
def gas_bound_full : Prop :=
  ∀ (ctx : Context Bytes) (fuel : Nat) (limit g : Int), 0 ≤ limit →
    (verifyFuel valueMem ctx fuel () limit).map (fun r => r.gasLeft) = some g → 0 ≤ g ∧ g ≤ limit

theorem gas_bound_full_refuted : ¬ gas_bound_full := by
  intro h
  have := h (dummyCtx inflationProg []) 20 10000 10010 (by decide) (by decide)
  omega

/-- the guarded run of the same program stops at the event instead of returning a result -/
theorem inflation_is_the_event :
    (match verifyFuelG valueMem (dummyCtx inflationProg []) 20 () 10000 with
     | some .event => true | _ => false) = true := by decide +kernel

/-- potential difference of one completed instruction -/
def stepDelta (ctx : Context Bytes) (cur : Frame Bytes) : Option Int :=
  match frameStep valueMem ctx ⟨(), cur⟩ with
  | .ok .continue_ s => some (frameA valueMem cur - frameA valueMem s.f)
  | _ => none

/-- "every executed instruction consumes at least one unit" -/
def every_step_costs_one_full : Prop :=
  ∀ (ctx : Context Bytes) (cur : Frame Bytes) (d : Int), 0 ≤ cur.runLimit →
    stepDelta ctx cur = some d → 1 ≤ d

/-- F5: `<32-byte msg> 0 0 CHECKMULTISIG` completes and takes nothing from the potential -/
def freeMultisigFrame : Frame Bytes :=
  { prog := [0xad], pc := 0, nextPC := 0, runLimit := 100, deferred := 0,
    data := [[], [], List.replicate 32 7], alt := [], depth := 0, expRes := true }

theorem free_multisig_witness : stepDelta (dummyCtx [0xad] []) freeMultisigFrame = some 0 := by decide +kernel

theorem every_step_costs_one_full_refuted : ¬ every_step_costs_one_full := by
  intro h
  have := h (dummyCtx [0xad] []) freeMultisigFrame 0 (by decide) free_multisig_witness
  omega

/-! ### the hypotheses of the partial theorems are satisfiable on non-trivial values -/

/-- a program with a CHECKPREDICATE child runs to a result in the guarded machine:
    `0 0 0 CHECKPREDICATE` (all arguments, empty predicate, limit = everything left) -/
def okProg : Bytes := [0x00, 0x00, 0x00, 0xc0]

example : (match verifyFuelG valueMem (dummyCtx okProg []) 8 () 2000 with
    | some (.result r) => decide (0 ≤ r.gasLeft ∧ r.gasLeft ≤ 2000) | _ => false) = true := by
  decide

example : Inv (⟨(), initFrame (dummyCtx okProg []) 2000, []⟩ : Machine Unit Bytes) :=
  ⟨by decide, by simp⟩

end BytomModel.Props.C07
