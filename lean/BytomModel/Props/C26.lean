/-
C26 — UTXO reservations never overlap and cover the request.

All theorems are about `BytomModel.Model.Keeper`, the executable model of
`account/utxo_keeper.go` that `./check C26` runs against the real `utxoKeeper` on every run.
The Go `sort.Slice` call is a parameter `sortFn`; theorems that need it only assume it
returns a permutation (`sortDesc_is_perm` shows the driver's sort is one).

Concurrency: every exported method of `utxoKeeper` takes `uk.mtx` for its whole body, so a
concurrent execution is a serialisation of calls = one of the operation sequences below.
-/
import BytomModel.Model.Keeper
import BytomModel.Lemmas.Keeper

namespace BytomModel.Props.C26
open BytomModel.Model.Keeper BytomModel.Lemmas.Keeper

/-! ### 1. the two maps describe each other, for all operation sequences -/

/-- `keeper_inv`: after ANY sequence of reservations, particular reservations, cancels,
    expiries, wallet DB writes, unconfirmed adds/removes and height changes, (a) every output
    of every live reservation is recorded in `reserved` under that reservation's id, (b) every
    `reserved` entry points to a live reservation holding that output, (c) reservation ids are
    unique and not above `nextIndex`. -/
theorem keeper_inv (sortFn : List Utxo → List Utxo) (ops : List Op) : Inv (runWith sortFn empty ops) :=
  inv_runWith sortFn inv_empty ops

/-- no output is held by two live reservations -/
theorem no_output_in_two_reservations (sortFn : List Utxo → List Utxo) (ops : List Op)
    (r1 r2 : Res) (u1 u2 : Utxo)
    (h1 : r1 ∈ (runWith sortFn empty ops).reservations) (h2 : r2 ∈ (runWith sortFn empty ops).reservations)
    (hu1 : u1 ∈ r1.utxos) (hu2 : u2 ∈ r2.utxos) (hid : u1.id = u2.id) : r1 = r2 := by
  have hk := keeper_inv sortFn ops
  have a := hk.fwd r1 h1 u1 hu1
  have b := hk.fwd r2 h2 u2 hu2
  rw [hid, b] at a
  simp only [Option.some.injEq] at a
  exact List.inj_on_of_nodup_map hk.nodup h2 h1 a |>.symm

/-- an output is marked reserved exactly when a live reservation holds it -/
theorem reserved_iff_held (sortFn : List Utxo → List Utxo) (ops : List Op) (oid rid : Nat) :
    mLookup oid (runWith sortFn empty ops).reserved = some rid ↔
      ∃ r ∈ (runWith sortFn empty ops).reservations, r.id = rid ∧ ∃ u ∈ r.utxos, u.id = oid := by
  have hk := keeper_inv sortFn ops
  constructor
  · exact hk.bwd oid rid
  · rintro ⟨r, hr, rfl, u, hu, rfl⟩
    exact hk.fwd r hr u hu

/-! ### 2. a successful Reserve -/

/-- `reserve_ok_spec`: a successful reservation gets the next id, holds only outputs that
    `findUtxos` listed (wallet DB standard records, plus unconfirmed ones if asked), of the
    requested account / asset / vote, mature at the current height, not reserved before;
    their amounts (as a list) sum to at least the request and the change is the excess; the
    new state records exactly this reservation. -/
theorem reserve_ok_spec (sortFn : List Utxo → List Utxo) (hperm : ∀ l, (sortFn l).Perm l) (k : Keeper)
    (acct asset amount : Nat) (useUnc : Bool) (vote exp : Nat) (r : Res) (k' : Keeper)
    (h : reserveWith sortFn k acct asset amount useUnc vote exp = (.ok r, k')) :
    r.id = k.next + 1 ∧ r.expiry = exp ∧
    (∀ u ∈ r.utxos, u ∈ listed k useUnc ∧ u.account = acct ∧ u.asset = asset ∧ u.vote = vote ∧
        u.validHeight ≤ k.height ∧ mLookup u.id k.reserved = none) ∧
    amount ≤ amounts r.utxos ∧ r.change = amounts r.utxos - amount ∧
    k' = afterReserve k r := by
  rcases reserveWith_cases sortFn k acct asset amount useUnc vote exp with ⟨r0, h0, hid, hexp, hsub, hge, hch⟩ | ⟨_, hne⟩
  · rw [h0] at h
    simp only [Prod.mk.injEq, Outcome.ok.injEq] at h
    obtain ⟨rfl, rfl⟩ := h
    refine ⟨hid, hexp, ?_, hge, hch, rfl⟩
    intro u hu
    have hm := hsub.subset hu
    simp only [List.mem_filter, isReserved, Bool.not_eq_true', Option.isSome_eq_false_iff,
      Option.isNone_iff_eq_none] at hm
    have hc := (hperm _).mem_iff.mp hm.1
    simp only [findUtxos, matching, List.mem_filter, matchesReq, mature, Bool.and_eq_true, beq_iff_eq,
      decide_eq_true_eq] at hc
    exact ⟨hc.1.1, hc.1.2.1.1, hc.1.2.1.2, hc.1.2.2, hc.2, hm.2⟩
  · exact absurd (by rw [h]) (hne r)

/-- FULL statement of "holds distinct outputs": refuted below. -/
def reserve_distinct_full : Prop :=
  ∀ (k : Keeper) (acct asset amount : Nat) (useUnc : Bool) (vote exp : Nat) (r : Res) (k' : Keeper),
    reserve k acct asset amount useUnc vote exp = (.ok r, k') → (r.utxos.map (·.id)).Nodup

/-- FULL statement of "the distinct outputs held cover the request": refuted below. -/
def reserve_covers_full : Prop :=
  ∀ (k : Keeper) (acct asset amount : Nat) (useUnc : Bool) (vote exp : Nat) (r : Res) (k' : Keeper),
    reserve k acct asset amount useUnc vote exp = (.ok r, k') → amount ≤ amounts (distinctById r.utxos)

/-- F16 witness: output 1 (amount 5) is a wallet-DB record AND in the unconfirmed map. -/
def f16Keeper : Keeper :=
  { empty with confirmed := [⟨1, 1, 5, 1, 0, 0, false, 0⟩], unconfirmed := [⟨1, 1, 5, 1, 0, 0, false, 0⟩] }

theorem reserve_distinct_full_refuted : ¬ reserve_distinct_full := by
  intro h
  have := h f16Keeper 1 1 10 true 0 50 _ _ rfl
  revert this; decide

theorem reserve_covers_full_refuted : ¬ reserve_covers_full := by
  intro h
  have := h f16Keeper 1 1 10 true 0 50 _ _ rfl
  revert this; decide

/-- `reserve_distinct_partial`: when no output id is listed twice (the wallet-DB records
    and the unconfirmed map are disjoint, or unconfirmed outputs are not used), a successful
    reservation holds pairwise distinct outputs — and then the list sum of `reserve_ok_spec`
    IS the sum over distinct outputs. -/
theorem reserve_distinct_partial (sortFn : List Utxo → List Utxo) (hperm : ∀ l, (sortFn l).Perm l) (k : Keeper)
    (acct asset amount : Nat) (useUnc : Bool) (vote exp : Nat) (r : Res) (k' : Keeper)
    (hnodup : ((listed k useUnc).map (·.id)).Nodup)
    (h : reserveWith sortFn k acct asset amount useUnc vote exp = (.ok r, k')) :
    (r.utxos.map (·.id)).Nodup ∧ amount ≤ amounts (distinctById r.utxos) ∧
      r.change = amounts (distinctById r.utxos) - amount := by
  rcases reserveWith_cases sortFn k acct asset amount useUnc vote exp with ⟨r0, h0, _, _, hsub, hge, hch⟩ | ⟨_, hne⟩
  · rw [h0] at h
    simp only [Prod.mk.injEq, Outcome.ok.injEq] at h
    obtain ⟨rfl, rfl⟩ := h
    have hnd : (r0.utxos.map (·.id)).Nodup := by
      have s1 : (r0.utxos.map (·.id)).Sublist ((sortFn (findUtxos k acct asset useUnc vote).1).map (·.id)) :=
        (hsub.trans List.filter_sublist).map _
      have p1 : ((sortFn (findUtxos k acct asset useUnc vote).1).map (·.id)).Perm
          ((findUtxos k acct asset useUnc vote).1.map (·.id)) := (hperm _).map _
      have s2 : ((findUtxos k acct asset useUnc vote).1.map (·.id)).Sublist ((listed k useUnc).map (·.id)) := by
        simp only [findUtxos, matching]
        exact (List.filter_sublist.trans List.filter_sublist).map _
      exact s1.nodup (p1.nodup_iff.mpr (s2.nodup hnodup))
    rw [distinctById_of_nodup _ hnd]
    exact ⟨hnd, hge, hch⟩
  · exact absurd (by rw [h]) (hne r)

example : ((listed { empty with confirmed := [⟨1, 1, 5, 1, 0, 0, false, 0⟩], unconfirmed := [⟨2, 1, 7, 1, 0, 0, false, 0⟩] } true).map (·.id)).Nodup ∧
    (reserve { empty with confirmed := [⟨1, 1, 5, 1, 0, 0, false, 0⟩], unconfirmed := [⟨2, 1, 7, 1, 0, 0, false, 0⟩] } 1 1 10 true 0 50).1
      = .ok ⟨1, [⟨2, 1, 7, 1, 0, 0, false, 0⟩, ⟨1, 1, 5, 1, 0, 0, false, 0⟩], 2, 50⟩ := by decide

/-! ### 3. which outcome Reserve reports -/

/-- `reserve_err_spec`: for a positive amount Reserve never panics and reports success /
    ErrInsufficient / ErrImmature / ErrReserved exactly by the inequalities between the
    request and the sums of the available (mature, unreserved), reserved (mature, reserved)
    and immature amounts of the LISTED matching records. -/
theorem reserve_err_spec (sortFn : List Utxo → List Utxo) (hperm : ∀ l, (sortFn l).Perm l) (k : Keeper)
    (acct asset amount : Nat) (useUnc : Bool) (vote exp : Nat) (hpos : 0 < amount) :
    outcomeClass (reserveWith sortFn k acct asset amount useUnc vote exp).1 =
      some (classify (availOf k (matching k acct asset useUnc vote)) (resvOf k (matching k acct asset useUnc vote))
        (immOf k (matching k acct asset useUnc vote)) amount) :=
  reserveWith_outcome sortFn hperm k acct asset amount useUnc vote exp hpos

/-- FULL statement: the outcome is decided by the sums over DISTINCT outputs. Refuted. -/
def reserve_err_full : Prop :=
  ∀ (k : Keeper) (acct asset amount : Nat) (useUnc : Bool) (vote exp : Nat), 0 < amount →
    outcomeClass (reserve k acct asset amount useUnc vote exp).1 =
      some (classify (availOf k (distinctById (matching k acct asset useUnc vote)))
        (resvOf k (distinctById (matching k acct asset useUnc vote)))
        (immOf k (distinctById (matching k acct asset useUnc vote))) amount)

/-- witness: the doubly listed output 1 (amount 5) is reserved; Reserve 8 answers
    "reserved" (5+5 ≥ 8) although all outputs together hold only 5: "insufficient". -/
theorem reserve_err_full_refuted : ¬ reserve_err_full := by
  intro h
  have := h (reserveParticular f16Keeper 1 false 50).2 1 1 8 true 0 50 (by decide)
  revert this; decide

theorem reserve_err_partial (sortFn : List Utxo → List Utxo) (hperm : ∀ l, (sortFn l).Perm l) (k : Keeper)
    (acct asset amount : Nat) (useUnc : Bool) (vote exp : Nat) (hpos : 0 < amount)
    (hnodup : ((listed k useUnc).map (·.id)).Nodup) :
    outcomeClass (reserveWith sortFn k acct asset amount useUnc vote exp).1 =
      some (classify (availOf k (distinctById (matching k acct asset useUnc vote)))
        (resvOf k (distinctById (matching k acct asset useUnc vote)))
        (immOf k (distinctById (matching k acct asset useUnc vote))) amount) := by
  have : ((matching k acct asset useUnc vote).map (·.id)).Nodup :=
    (List.filter_sublist.map _).nodup hnodup
  rw [distinctById_of_nodup _ this]
  exact reserve_err_spec sortFn hperm k acct asset amount useUnc vote exp hpos

/-- FULL statement "Reserve never panics". Refuted: amount 0 with an unreserved candidate. -/
def reserve_never_panics_full : Prop :=
  ∀ (k : Keeper) (acct asset amount : Nat) (useUnc : Bool) (vote exp : Nat),
    outcomeClass (reserve k acct asset amount useUnc vote exp).1 ≠ none

theorem reserve_never_panics_full_refuted : ¬ reserve_never_panics_full := by
  intro h
  exact h { empty with confirmed := [⟨1, 1, 5, 1, 0, 0, false, 0⟩] } 1 1 0 false 0 50 (by decide)

theorem reserve_never_panics_partial (sortFn : List Utxo → List Utxo) (k : Keeper)
    (acct asset amount : Nat) (useUnc : Bool) (vote exp : Nat) (hpos : 0 < amount) :
    outcomeClass (reserveWith sortFn k acct asset amount useUnc vote exp).1 ≠ none := by
  obtain ⟨⟨opt, a, ra⟩, hopt⟩ := optUTXOs_some_of_pos k (sortFn (findUtxos k acct asset useUnc vote).1) amount hpos
  unfold reserveWith
  simp only [hopt]
  split_ifs <;> simp [outcomeClass]

/-- the sort the driver (and `reserve`) uses is a permutation, so every theorem above
    applies to `reserve = reserveWith sortDesc`. -/
theorem sortDesc_is_perm (l : List Utxo) : (sortDesc l).Perm l := sortDesc_perm l

/-! ### 4. ReserveParticular, cancel, expire -/

/-- `particular_spec`: ReserveParticular answers ErrReserved iff the output is reserved;
    otherwise ErrMatchUTXO iff it is neither unconfirmed (when allowed) nor a DB record;
    otherwise ErrImmature iff its valid height is above the current height; otherwise it
    succeeds holding exactly that output with change 0. -/
theorem particular_spec (k : Keeper) (oid : Nat) (useUnc : Bool) (exp : Nat) :
    (reserveParticular k oid useUnc exp).1 =
      if (mLookup oid k.reserved).isSome then .err .reserved
      else match findUtxo k oid useUnc with
        | none => .err .matchUtxo
        | some u => if u.validHeight > k.height then .err .immature else .ok ⟨k.next + 1, [u], 0, exp⟩ := by
  unfold reserveParticular
  by_cases h1 : (mLookup oid k.reserved).isSome
  · simp [h1]
  · simp only [h1]
    cases findUtxo k oid useUnc with
    | none => rfl
    | some u =>
      by_cases h2 : u.validHeight > k.height
      · simp [h2]
      · simp [h2]

theorem particular_ok_holds_requested (k : Keeper) (oid : Nat) (useUnc : Bool) (exp : Nat) (r : Res) (k' : Keeper)
    (h : reserveParticular k oid useUnc exp = (.ok r, k')) :
    ∃ u, r.utxos = [u] ∧ u.id = oid ∧ u.validHeight ≤ k.height ∧ mLookup oid k.reserved = none ∧
      r.change = 0 ∧ k' = afterReserve k r := by
  rcases reserveParticular_cases k oid useUnc exp with ⟨u, h0, _, hid, hfree, hm⟩ | ⟨_, hne⟩
  · rw [h0] at h
    simp only [Prod.mk.injEq, Outcome.ok.injEq] at h
    obtain ⟨rfl, rfl⟩ := h
    exact ⟨u, rfl, hid, hm, hfree, rfl, rfl⟩
  · exact absurd (by rw [h]) (hne r)

/-- after `cancel rid` in a reachable state no reservation has id `rid`, and exactly the
    outputs it held are released -/
theorem cancel_spec (sortFn : List Utxo → List Utxo) (ops : List Op) (rid : Nat) :
    (∀ r ∈ (cancel (runWith sortFn empty ops) rid).reservations, r.id ≠ rid) ∧
    (∀ r ∈ (runWith sortFn empty ops).reservations, r.id ≠ rid → r ∈ (cancel (runWith sortFn empty ops) rid).reservations) ∧
    Inv (cancel (runWith sortFn empty ops) rid) := by
  refine ⟨?_, ?_, inv_cancel (keeper_inv sortFn ops) rid⟩
  · intro r hr
    unfold cancel at hr
    split at hr
    · rename_i hf
      intro hid
      have := List.find?_eq_none.mp hf r hr
      simp [hid] at this
    · simp only [List.mem_filter, bne_iff_ne, ne_eq] at hr
      exact hr.2
  · intro r hr hne
    unfold cancel
    split
    · exact hr
    · simp only [List.mem_filter, bne_iff_ne, ne_eq]
      exact ⟨hr, hne⟩

/-- `expire t` removes only reservations whose expiry is before `t` -/
theorem expire_keeps_unexpired (k : Keeper) (hk : (k.reservations.map (·.id)).Nodup) (t : Nat) (r : Res)
    (hr : r ∈ k.reservations) (hlive : t ≤ r.expiry) : r ∈ (expire k t).reservations := by
  unfold expire
  have key : ∀ (l : List Res) (k0 : Keeper), (∀ x ∈ l, x ∈ k.reservations ∧ x.expiry < t) →
      r ∈ k0.reservations → (∀ x ∈ k0.reservations, x ∈ k.reservations) →
      r ∈ (l.foldl (fun k r => cancel k r.id) k0).reservations := by
    intro l
    induction l with
    | nil => intro k0 _ h _; simpa using h
    | cons x l ih =>
      intro k0 hl h hsub
      simp only [List.foldl_cons]
      apply ih
      · intro y hy; exact hl y (List.mem_cons_of_mem _ hy)
      · unfold cancel
        split
        · exact h
        · simp only [List.mem_filter, bne_iff_ne, ne_eq]
          refine ⟨h, fun hid => ?_⟩
          have hx := hl x (List.mem_cons_self)
          have : r = x := List.inj_on_of_nodup_map hk hr hx.1 hid
          subst this
          omega
      · intro y hy
        unfold cancel at hy
        split at hy
        · exact hsub y hy
        · exact hsub y (List.mem_filter.mp hy).1
  apply key
  · intro x hx
    simp only [List.mem_filter, decide_eq_true_eq] at hx
    exact hx
  · exact hr
  · intro x hx; exact hx

end BytomModel.Props.C26
