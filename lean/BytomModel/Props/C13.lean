/-
C13 — blocks violating consensus rules never enter the main chain; valid blocks are accepted.

Stated over `Model/NodeLedger.lean` (the node with its ledger; validated against the real node on
the `rules` stream of the node engine): `validBlock` = the `ValidateBlockHeader` rules (height,
parent, time window, proposer signature for the slot) + the context-free flags (merkle root,
transaction validity, coinbase shape/amounts); `settle`/`ledgerReorg` = the attach-time spend
rules of `reorganizeChain`.  Events (`Ev`): block delivery, verification message, restart.

1. `invalid_never_stored`, `invalid_answers_err` — a rule-breaking block is refused untouched.
2. `main_chain_moves_only_with_ledger`, `main_chain_applied`, `attached_blocks_apply`,
   `attached_inputs_spendable` and the four spend rules — the best block / index / utxo set move
   only together and only through a `ledgerReorg` in which every attached block's transactions
   pass `applyBlockTxs`.
3. `connected_implies_rules` — every main-chain block of a reachable state passed `validBlock`
   when it was saved and `applyBlockTxs` when it was attached (parents-first deliveries: the
   model does not re-validate blocks that wait in the orphan pool).
4. completeness: `valid_block_stored`, `c13_valid_accepted_partial`; the full statement
   `c13_valid_accepted_full` is refuted by the F32 witness.
-/
import BytomModel.Lemmas.C13Witness
import BytomModel.Lemmas.C13DoubleSpend

namespace BytomModel.Props.C13
open BytomModel.Node BytomModel.Ledger BytomModel.NodeLedger BytomModel.Lemmas.C13

/-! ## 1. a block that breaks a `ValidateBlock` rule is refused before anything is touched -/

/-- a block delivered when its parent is stored and `validBlock` is false leaves the whole state
    (store, checkpoint tree, orphan pool, ledger) unchanged -/
theorem invalid_never_stored (s : NodeLedger.State) (b : Header)
    (hp : (s.node.header b.parent).isSome = true) (hv : s.validBlock b = false) :
    (s.processBlock b).1 = s := by
  rw [processBlock_eq]
  cases hk : alreadyProcessed s.node b with
  | false => simp [hp, hv]
  | true =>
    simp only [Bool.not_true, Bool.false_and, Bool.false_eq_true, if_false]
    rcases node_processBlock_cases s.node b with ⟨_, e⟩ | ⟨h, _⟩ | ⟨h, _⟩ | ⟨h, _⟩
    · unfold State.settle
      rw [e]
      simp
    all_goals (rw [hk] at h; cases h)

/-- … and the answer is an error, unless the hash is already known (stored or waiting) and not
    above the best height — the "block has been processed" early exit, which answers without
    looking at the block -/
theorem invalid_answers_err (s : NodeLedger.State) (b : Header)
    (hp : (s.node.header b.parent).isSome = true) (hv : s.validBlock b = false)
    (hk : alreadyProcessed s.node b = false) :
    s.processBlock b = (s, .err) := by
  rw [processBlock_eq]
  simp [hp, hv, hk]

/-- a refused block is not stored by the refusal -/
theorem invalid_not_stored_by_delivery (s : NodeLedger.State) (b : Header)
    (hp : (s.node.header b.parent).isSome = true) (hv : s.validBlock b = false) :
    (s.processBlock b).1.node.header b.id = s.node.header b.id := by
  rw [invalid_never_stored s b hp hv]

/-! ## 2. the main chain moves only through an accepted ledger reorganisation -/

/-- every event (delivery, verification message, restart) either leaves best block, index,
    chain status, utxo set and contract table as they were, or moves them together along the
    attach list of `calcReorg`, which `ledgerReorg` accepted -/
theorem main_chain_moves_only_with_ledger (s : NodeLedger.State) (e : Ev) :
    Frozen s (step s e) ∨ ∃ att det, Moved s (step s e) att det :=
  step_spec s e

/-- over ALL event sequences: the persisted utxo set is the initial one, or it is what the last
    accepted `ledgerReorg` wrote — and best block and index are the ones that move wrote -/
theorem main_chain_applied (init : NodeLedger.State) (evs : List Ev) :
    ((run init evs).utxo = init.utxo ∧ (run init evs).node.best = init.node.best ∧
      (run init evs).node.index = init.node.index) ∨
    ∃ pre e suf att det, evs = pre ++ e :: suf ∧
      (run init pre).ledgerReorg att det = some ((run init evs).utxo, (run init evs).contracts) ∧
      (run init evs).node.index = att.foldl (fun ix h => alistSet ix h.height h.id) (run init pre).node.index ∧
      (run init evs).node.best ≠ (run init pre).node.best := by
  rcases run_last_move evs init with h | ⟨pre, e, suf, att, det, h1, h2, h3⟩
  · left; exact ⟨h.utxo, h.best, h.index⟩
  · right
    refine ⟨pre, e, suf, att, det, h1, ?_, ?_, ?_⟩
    · rw [h3.utxo, h3.contracts]; exact h2.ledger
    · rw [h3.index]; exact h2.index
    · rw [h3.best]; exact h2.best_ne

/-- every block a move attaches passed `applyBlockTxs` (on the view left by the blocks detached
    and attached before it, completed by the stored entries of the outputs it spends) -/
theorem attached_blocks_apply {pre res : NodeLedger.State} {att det : List Header} (m : Moved pre res att det)
    (before : List Header) (a : Header) (after : List Header) (h : att = before ++ a :: after) :
    ∃ vb v', applyBlockTxs pre.params a.height true (pre.txsOf a.id) (loadSpent pre.utxo (pre.txsOf a.id) vb) = some v' :=
  ledgerReorg_some_attached m.ledger before a after h

/-- … hence every input of every transaction of every attached block was, at its turn, present,
    unspent, not an immature coinbase output and not a locked vote output -/
theorem attached_inputs_spendable {pre res : NodeLedger.State} {att det : List Header} (m : Moved pre res att det)
    (before : List Header) (a : Header) (after : List Header) (h : att = before ++ a :: after) :
    ∃ vb, ∀ (tpre : List Tx) (t : Tx) (tsuf : List Tx), pre.txsOf a.id = tpre ++ t :: tsuf →
      ∃ vm, applyBlockTxs pre.params a.height true tpre (loadSpent pre.utxo (pre.txsOf a.id) vb) = some vm ∧
        InputsSpendable pre.params a.height vm t.ins := by
  obtain ⟨vb, v', hv⟩ := attached_blocks_apply m before a after h
  exact ⟨vb, fun tpre t tsuf e => applyBlockTxs_some_inputs hv tpre t tsuf e⟩

/-- rule "missing": a block with a transaction that spends an output absent from the view at
    that point fails `applyBlockTxs` -/
theorem spend_of_missing_output_refused {p : Params} {h : Nat} {first : Bool} {pre suf : List Tx} {t : Tx}
    {v vm vi : View} {ipre isuf : List Nat} {o : Nat}
    (hpre : applyBlockTxs p h first pre v = some vm) (hins : t.ins = ipre ++ o :: isuf)
    (hip : applySpend p h ipre vm = some vi) (hbad : vget vi o = none) :
    applyBlockTxs p h first (pre ++ t :: suf) v = none := by
  apply applyBlockTxs_bad_input hpre hins hip
  rintro ⟨e, he, _⟩
  rw [hbad] at he; cases he

/-- rule "already spent" (cross-block: the stored entry is marked spent; in-block: an earlier
    input or transaction of the same block marked it) -/
theorem spend_of_spent_output_refused {p : Params} {h : Nat} {first : Bool} {pre suf : List Tx} {t : Tx}
    {v vm vi : View} {ipre isuf : List Nat} {o : Nat} {e : Entry}
    (hpre : applyBlockTxs p h first pre v = some vm) (hins : t.ins = ipre ++ o :: isuf)
    (hip : applySpend p h ipre vm = some vi) (hg : vget vi o = some e) (hsp : e.spent = true) :
    applyBlockTxs p h first (pre ++ t :: suf) v = none := by
  apply applyBlockTxs_bad_input hpre hins hip
  rintro ⟨e', he, hs, _⟩
  rw [hg] at he; injection he with he; rw [← he, hsp] at hs; cases hs

/-- rule "immature coinbase" -/
theorem spend_of_immature_coinbase_refused {p : Params} {h : Nat} {first : Bool} {pre suf : List Tx} {t : Tx}
    {v vm vi : View} {ipre isuf : List Nat} {o : Nat} {e : Entry}
    (hpre : applyBlockTxs p h first pre v = some vm) (hins : t.ins = ipre ++ o :: isuf)
    (hip : applySpend p h ipre vm = some vi) (hg : vget vi o = some e)
    (ht : e.typ = 1) (hy : e.height + p.coinbasePending > h) :
    applyBlockTxs p h first (pre ++ t :: suf) v = none := by
  apply applyBlockTxs_bad_input hpre hins hip
  rintro ⟨e', he, _, hc, _⟩
  rw [hg] at he; injection he with he; subst he; exact hc ⟨ht, hy⟩

/-- rule "locked vote" -/
theorem spend_of_locked_vote_refused {p : Params} {h : Nat} {first : Bool} {pre suf : List Tx} {t : Tx}
    {v vm vi : View} {ipre isuf : List Nat} {o : Nat} {e : Entry}
    (hpre : applyBlockTxs p h first pre v = some vm) (hins : t.ins = ipre ++ o :: isuf)
    (hip : applySpend p h ipre vm = some vi) (hg : vget vi o = some e)
    (ht : e.typ = 2) (hy : e.height + p.votePending > h) :
    applyBlockTxs p h first (pre ++ t :: suf) v = none := by
  apply applyBlockTxs_bad_input hpre hins hip
  rintro ⟨e', he, _, _, hc⟩
  rw [hg] at he; injection he with he; subst he; exact hc ⟨ht, hy⟩

/-- in-block double spend, one transaction: an output listed twice among the inputs of a
    transaction is refused on EVERY view (the first spend marks it, the second is refused) -/
theorem inblock_double_spend_same_tx_refused {p : Params} {h : Nat} (a b c : List Nat) (o : Nat) (v : View) :
    applySpend p h (a ++ o :: b ++ o :: c) v = none :=
  same_tx_double_spend a b c o v

/-- in-block double spend, two transactions: a block in which two transactions spend the same
    output, with no transaction from the first up to the second creating an output of that id
    (ids are hashes: never, in the real system), fails `applyBlockTxs` on EVERY view -/
theorem inblock_double_spend_refused {p : Params} {h : Nat} {first : Bool} (pre mid suf : List Tx) (t1 t2 : Tx)
    (o : Nat) (v : View) (h1 : o ∈ t1.ins) (h2 : o ∈ t2.ins)
    (hne : ∀ t, t ∈ t1 :: mid → ∀ x, x ∈ t.outs → x.id ≠ o) :
    applyBlockTxs p h first (pre ++ t1 :: mid ++ t2 :: suf) v = none :=
  cross_tx_double_spend pre mid suf t1 t2 o v h1 h2 hne

/-- a reorganisation whose attach list contains a block that fails `applyBlockTxs` (whatever the
    blocks before it left) is refused: best block, index, utxo set stay -/
theorem reorg_with_failing_block_refused (s : NodeLedger.State) (att det : List Header)
    (h : ∃ before a after, att = before ++ a :: after ∧
      ∀ vb, applyBlockTxs s.params a.height true (s.txsOf a.id) (loadSpent s.utxo (s.txsOf a.id) vb) = none) :
    s.ledgerReorg att det = none :=
  ledgerReorg_none_of_attach_fails h

/-- a fresh, header-valid block on top of the best block whose transactions break a spend rule
    is answered `err`; best block, index and utxo set do not move. (It IS stored and taken into
    the checkpoint tree: the starting point of F32.) -/
theorem context_invalid_block_not_connected (s : NodeLedger.State) (b : Header)
    (hno : NoOrphans s) (hfresh : s.node.header b.id = none) (hpar : b.parent = s.node.best)
    (hbest : (s.node.header s.node.best).isSome = true) (hm : (s.metaOf b.id).isSome = true)
    (hv : s.validBlock b = true) (hok : (s.node.saveBlock b).2 = true)
    (hfc : (s.node.saveBlock b).1.bestChain = b.id)
    (htx : applyBlockTxs s.params b.height true (s.txsOf b.id) (loadSpent s.utxo (s.txsOf b.id) []) = none) :
    (s.processBlock b).2 = .err ∧ (s.processBlock b).1.node.best = s.node.best ∧
    (s.processBlock b).1.utxo = s.utxo ∧ (s.processBlock b).1.node.index = s.node.index ∧
    ((s.processBlock b).1.node.header b.id).isSome = true ∧
    (s.processBlock b).1.node.bestChain = b.id :=
  context_invalid_extension_refused s b hno hfresh hpar hbest hm hv hok hfc htx

/-! ## 3. every main-chain block passed the rules -/

/-- For every history delivered parents-first from a state without orphans: every entry of the
    main-chain index of the reached state is an initial entry, or its block (a) was attached by a
    move in which it passed `applyBlockTxs` at its turn, and (b) is a block stored at the start or
    one that passed `validBlock`, with its parent stored, when it was delivered and saved.

    Hypothesis `ParentsFirst`: no block is delivered while its parent is unknown. The model does
    not re-validate a block when it leaves the orphan pool (the real `saveBlock` does), so for
    such blocks the model has no validation event to point at. -/
theorem connected_implies_rules (init : NodeLedger.State) (evs : List Ev)
    (hno : NoOrphans init) (hpf : ParentsFirst init evs) :
    ∀ p, p ∈ (run init evs).node.index →
      p ∈ init.node.index ∨
      (∃ pre e suf att det before a after, evs = pre ++ e :: suf ∧ att = before ++ a :: after ∧ a.id = p.2 ∧
          Moved (run init pre) (step (run init pre) e) att det ∧
          (∃ vb v', applyBlockTxs (run init pre).params a.height true ((run init pre).txsOf a.id)
              (loadSpent (run init pre).utxo ((run init pre).txsOf a.id) vb) = some v') ∧
          ((∃ h0, h0 ∈ init.node.headers ∧ h0.id = p.2) ∨ Validated init evs p.2)) := by
  intro p hp
  rcases run_index evs init p hp with h | ⟨pre, e, suf, att, det, a, h1, h2, h3, h4⟩
  · left; exact h
  · right
    obtain ⟨before, after, hsplit⟩ := List.append_of_mem h3
    refine ⟨pre, e, suf, att, det, before, a, after, h1, hsplit, h4, h2, attached_blocks_apply h2 before a after hsplit, ?_⟩
    -- the attached block is stored right after the move; stored headers were validated
    have hst : a ∈ (run init (pre ++ [e])).node.headers := by
      rw [run_snoc]; exact h2.att_stored a h3
    have hpf' : ParentsFirst init (pre ++ [e]) := by
      apply ParentsFirst.prefix (b := suf)
      rw [List.append_assoc]; exact h1 ▸ hpf
    rcases (run_headers (pre ++ [e]) init hno hpf').2 a hst with h5 | h5
    · left; rw [← h4]; exact h5
    · right
      rw [← h4, h1, show pre ++ e :: suf = (pre ++ [e]) ++ suf by simp]
      exact h5.append suf

/-- along such a history no block ever waits in the orphan pool -/
theorem parents_first_no_orphans (init : NodeLedger.State) (evs : List Ev)
    (hno : NoOrphans init) (hpf : ParentsFirst init evs) : NoOrphans (run init evs) :=
  (run_headers evs init hno hpf).1

/-- every stored block of such a history is an initial one or passed `validBlock` on delivery -/
theorem stored_implies_validated (init : NodeLedger.State) (evs : List Ev)
    (hno : NoOrphans init) (hpf : ParentsFirst init evs) :
    ∀ h, h ∈ (run init evs).node.headers →
      (∃ h0, h0 ∈ init.node.headers ∧ h0.id = h.id) ∨ Validated init evs h.id :=
  (run_headers evs init hno hpf).2

/-! ## 4. valid blocks are accepted -/

/-- a block that passes `validBlock` with its parent stored is stored by `processBlock` unless
    Casper (`ApplyBlock`, inside `saveBlock`) refuses it — whatever happens to the best chain -/
theorem valid_block_stored (s : NodeLedger.State) (b : Header)
    (hp : (s.node.header b.parent).isSome = true) (hv : s.validBlock b = true)
    (hk : alreadyProcessed s.node b = false) (hok : (s.node.saveBlock b).2 = true) :
    ((s.processBlock b).1.node.header b.id).isSome = true :=
  BytomModel.Lemmas.C13.valid_block_stored s b hp hv hk hok

/-- a block that "should be accepted": not yet known, extends the current best block, passes
    `validBlock` (with recorded validation data), is accepted by Casper, and its transactions
    apply to the persisted utxo set -/
structure ValidExtension (s : NodeLedger.State) (b : Header) : Prop where
  noOrphans : NoOrphans s
  fresh : s.node.header b.id = none
  parentIsBest : b.parent = s.node.best
  bestStored : (s.node.header s.node.best).isSome = true
  hasMeta : (s.metaOf b.id).isSome = true
  valid : s.validBlock b = true
  casper : (s.node.saveBlock b).2 = true
  txsApply : (applyBlockTxs s.params b.height true (s.txsOf b.id) (loadSpent s.utxo (s.txsOf b.id) [])).isSome = true

/-- full strength: in every state reached from genesis, a valid extension of the best block is
    answered `ok` and becomes the best block -/
def c13_valid_accepted_full : Prop :=
  ∀ (cfg : Config) (p : Params) (g : Header) (gtxs : List Tx) (defs : List Header)
    (metas : List (Nat × Meta)) (blockTxs : List (Nat × List Tx)) (evs : List Ev) (b : Header),
    let init : NodeLedger.State :=
      { NodeLedger.State.init cfg p g gtxs with
        node := { (NodeLedger.State.init cfg p g gtxs).node with defs := defs }, metas := metas, blockTxs := blockTxs }
    ValidExtension (run init evs) b →
      ((run init evs).processBlock b).2 = .ok ∧ ((run init evs).processBlock b).1.node.best = b.id

/-- F32: refuted by the witness history — after the context-invalid b4 was stored, the valid b5 is
    answered `err` and the best block stays b3 -/
theorem c13_valid_accepted_full_refuted : ¬ c13_valid_accepted_full := by
  intro h
  have h1 := h { epoch := 2, nVal := 1, me := none } {} Witness.g [] Witness.init.node.defs
    Witness.init.metas Witness.init.blockTxs Witness.history Witness.b5
  have hve : ValidExtension (run Witness.init Witness.history) Witness.b5 :=
    ⟨noOrphans_of_isEmpty _ (by decide +kernel) (by decide +kernel), by decide +kernel, by decide +kernel,
     by decide +kernel, by decide +kernel, by decide +kernel, by decide +kernel, by decide +kernel⟩
  have h2 := (h1 hve).1
  revert h2
  decide +kernel

/-- the witness, spelled out: b4 is stored but not connected; b5 is valid, stored, answered `err`,
    and the best block is still b3 although b5 is the only valid block at height 4 -/
theorem f32_witness :
    let s := run Witness.init Witness.history
    s.node.best = 3 ∧ (s.node.header 4).isSome = true ∧ s.validBlock Witness.b5 = true ∧
    (s.processBlock Witness.b5).2 = .err ∧ (s.processBlock Witness.b5).1.node.best = 3 ∧
    ((s.processBlock Witness.b5).1.node.header 5).isSome = true ∧
    (s.node.saveBlock Witness.b5).1.bestChain = 4 := by
  decide +kernel

/-- partial: the same statement for ANY state (reachable or not), under the additional
    hypothesis that the fork choice, after the block is saved, selects the block itself — i.e. no
    stored branch that cannot be applied (F32) or is otherwise preferred stands in the way.
    Then the block becomes the best block, the index gets its height, and the persisted utxo set
    is the block's `applyBlockTxs` result saved over the old set. -/
theorem c13_valid_accepted_partial (s : NodeLedger.State) (b : Header) (hve : ValidExtension s b)
    (hfc : (s.node.saveBlock b).1.bestChain = b.id) :
    (s.processBlock b).2 = .ok ∧ (s.processBlock b).1.node.best = b.id ∧
    (s.processBlock b).1.node.index = alistSet s.node.index b.height b.id ∧
    ∃ v', applyBlockTxs s.params b.height true (s.txsOf b.id) (loadSpent s.utxo (s.txsOf b.id) []) = some v' ∧
      (s.processBlock b).1.utxo = saveView s.utxo v' := by
  cases htx : applyBlockTxs s.params b.height true (s.txsOf b.id) (loadSpent s.utxo (s.txsOf b.id) []) with
  | none => have := hve.txsApply; rw [htx] at this; cases this
  | some v' =>
    obtain ⟨h1, h2, h3, h4⟩ := valid_extension_accepted s b v' hve.noOrphans hve.fresh hve.parentIsBest
      hve.bestStored hve.hasMeta hve.valid hve.casper hfc htx
    exact ⟨h1, h2, h4, v', rfl, h3⟩

/-! ## the hypotheses are satisfiable (tests on the witness history) -/

/-- `ParentsFirst`, `NoOrphans`: the witness history is delivered parents-first from genesis -/
example : NoOrphans Witness.init ∧ ParentsFirst Witness.init Witness.history := by
  refine ⟨⟨rfl, rfl⟩, ?_⟩
  intro pre b suf h
  -- the four deliveries
  match pre, h with
  | [], h => injection h with h1 _; injection h1 with h1; subst h1; decide +kernel
  | [_], h =>
    injection h with h0 h; injection h with h1 _; subst h0; injection h1 with h1; subst h1; decide +kernel
  | [_, _], h =>
    injection h with h0 h; injection h with h0' h; injection h with h1 _; subst h0; subst h0'
    injection h1 with h1; subst h1; decide +kernel
  | [_, _, _], h =>
    injection h with h0 h; injection h with h0' h; injection h with h0'' h; injection h with h1 _
    subst h0; subst h0'; subst h0''; injection h1 with h1; subst h1; decide +kernel
  | _ :: _ :: _ :: _ :: _ :: _, h =>
    injection h with _ h; injection h with _ h; injection h with _ h; injection h with _ h; cases h
  | [_, _, _, _], h =>
    injection h with _ h; injection h with _ h; injection h with _ h; injection h with _ h; cases h

/-- `ValidExtension` + fork choice selects the block: delivering b3 after b1, b2 (a valid block
    with a reward coinbase) -/
example :
    let s := run Witness.init [.deliver Witness.b1, .deliver Witness.b2]
    ValidExtension s Witness.b3 ∧ (s.node.saveBlock Witness.b3).1.bestChain = Witness.b3.id :=
  ⟨⟨noOrphans_of_isEmpty _ (by decide +kernel) (by decide +kernel), by decide +kernel, by decide +kernel,
    by decide +kernel, by decide +kernel, by decide +kernel, by decide +kernel, by decide +kernel⟩, by decide +kernel⟩

/-- `invalid_never_stored`: a copy of b3 with a wrong height is refused -/
example :
    let s := run Witness.init [.deliver Witness.b1, .deliver Witness.b2]
    let bad : Header := { Witness.b3 with height := 4 }
    (s.node.header bad.parent).isSome = true ∧ s.validBlock bad = false := by
  decide +kernel

/-- `context_invalid_block_not_connected`: b4 on top of b3 (spends the immature coinbase of b3) -/
example :
    let s := run Witness.init [.deliver Witness.b1, .deliver Witness.b2, .deliver Witness.b3]
    s.validBlock Witness.b4 = true ∧ (s.node.saveBlock Witness.b4).2 = true ∧
    (s.node.saveBlock Witness.b4).1.bestChain = 4 ∧
    applyBlockTxs s.params 4 true (s.txsOf 4) (loadSpent s.utxo (s.txsOf 4) []) = none := by
  decide +kernel

/-- `inblock_double_spend_refused`: two transactions spending o7 (shape of the generator's
    double-spend-inblock mutant) -/
example : applyBlockTxs {} 17 true
    ([{ id := 22, ins := [], outs := [{ id := 23, kind := .normal, amount := 0 }] }] ++
      { id := 20, ins := [7], outs := [{ id := 21, kind := .normal, amount := 5 }] } :: [] ++
      { id := 21, ins := [7], outs := [{ id := 22, kind := .normal, amount := 4 }] } :: [])
    [(7, { typ := 1, height := 4, spent := false })] = none :=
  inblock_double_spend_refused _ _ _ _ _ 7 _ (by decide) (by decide) (by decide)

/-- a `Moved` step exists: delivering b1 to the genesis state moves the best block -/
example : (step Witness.init (.deliver Witness.b1)).node.best ≠ Witness.init.node.best := by
  decide +kernel

end BytomModel.Props.C13
