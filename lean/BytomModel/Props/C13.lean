/-
C13 — blocks violating consensus rules never enter the main chain; valid blocks are accepted.

Stated over `Model/NodeLedger.lean` (the node with its ledger; validated against the real node on
the `rules` stream of the node engine): `validBlock` = the `ValidateBlockHeader` rules (height,
parent, time window, proposer signature for the slot) + the context-free flags (merkle root,
transaction validity, coinbase shape/amounts); `settle`/`ledgerReorg` = the attach-time spend
rules of `reorganizeChain`.  Events (`Ev`): block delivery, verification message, restart.

1. `invalid_refused_by_saveBlock`, `invalid_orphan_dropped`, `invalid_never_stored`,
   `invalid_answers_err` — a rule-breaking block is refused untouched at both call sites of saveBlock.
2. `main_chain_moves_only_with_ledger`, `main_chain_applied`, `attached_blocks_apply`,
   `attached_inputs_spendable` and the four spend rules — the best block / index / utxo set move
   only together and only through a `ledgerReorg` in which every attached block's transactions
   pass `applyBlockTxs`.
3. `connected_implies_rules`, `stored_implies_validated` — for EVERY event sequence (any delivery
   order): every stored block passed `validBlock` at the moment `saveBlock` stored it (after its
   own delivery or when it left the orphan pool), every main-chain block additionally passed
   `applyBlockTxs` when it was attached; `always_invalid_never_stored`.
4. completeness: `valid_block_stored`, `c13_valid_accepted_partial`; the full statement
   `c13_valid_accepted_full` is refuted by the F32 witness.
-/
import BytomModel.Lemmas.C13Witness
import BytomModel.Lemmas.C13DoubleSpend

namespace BytomModel.Props.C13
open BytomModel.Node BytomModel.Ledger BytomModel.NodeLedger BytomModel.Lemmas.C13

/-! ## 1. a block that breaks a `ValidateBlock` rule is refused before anything is touched -/

/-- `Chain.saveBlock` refuses a block that fails `validBlock` before anything is touched — at
    BOTH call sites (after the block's own delivery, and when it leaves the orphan pool), in
    whatever node state `n` the call happens -/
theorem invalid_refused_by_saveBlock (env : NodeLedger.State) (n : Node.State) (b : Header)
    (hv : env.validIn n b = false) : env.saveBlockVn n b = (n, false) := by
  rcases saveBlockVn_cases env n b with ⟨_, e⟩ | ⟨ht, _⟩
  · exact e
  · rw [hv] at ht; cases ht

/-- an invalid block that waited in the orphan pool is dropped from the pool when its turn comes
    (its parent has been stored): nothing else changes — the step of `saveSubBlock` for it is
    `OrphanManage.Delete` -/
theorem invalid_orphan_dropped (env : NodeLedger.State) (fuel : Nat) (st : Node.State) (o : Nat) (ob : Header)
    (hl : lookupHeader st.orphans o = some ob) (hv : env.validIn st ob = false) :
    subStepV env fuel st o = st.orphanDelete o ∧ (subStepV env fuel st o).headers = st.headers := by
  have e : subStepV env fuel st o = st.orphanDelete o := by
    unfold subStepV
    rw [hl]
    simp only [invalid_refused_by_saveBlock env st ob hv, if_true]
  exact ⟨e, by rw [e, orphanDelete_headers]⟩

/-- a block delivered when its parent is stored and `validBlock` is false leaves the whole state
    (store, checkpoint tree, orphan pool, ledger) unchanged -/
theorem invalid_never_stored (s : NodeLedger.State) (b : Header)
    (hp : (s.node.header b.parent).isSome = true) (hv : s.validBlock b = false) :
    (s.processBlock b).1 = s := by
  have hsv := invalid_refused_by_saveBlock s s.node b (by rw [validIn_self]; exact hv)
  rw [processBlock_eq_settle]
  have hn : (s.chainProcessBlock b).1 = s.node := by
    rcases chainProcessBlock_cases s b with ⟨_, e⟩ | ⟨_, hn, _⟩ | ⟨_, _, _, e⟩ | ⟨_, _, ht, _⟩
    · exact e
    · rw [Option.isNone_iff_eq_none] at hn; rw [hn] at hp; cases hp
    · rw [e, hsv]
    · rw [hsv] at ht; cases ht
  unfold State.settle
  rw [hn]
  simp

/-- … and the answer is an error, unless the hash is already known (stored or waiting) and not
    above the best height — the "block has been processed" early exit, which answers without
    looking at the block -/
theorem invalid_answers_err (s : NodeLedger.State) (b : Header)
    (hp : (s.node.header b.parent).isSome = true) (hv : s.validBlock b = false)
    (hk : alreadyProcessed s.node b = false) :
    s.processBlock b = (s, .err) := by
  have hsv := invalid_refused_by_saveBlock s s.node b (by rw [validIn_self]; exact hv)
  rw [processBlock_eq_settle]
  have hn : s.chainProcessBlock b = (s.node, .err) := by
    rcases chainProcessBlock_cases s b with ⟨h1, _⟩ | ⟨_, hn, _⟩ | ⟨_, _, _, e⟩ | ⟨_, _, ht, _⟩
    · rw [hk] at h1; cases h1
    · rw [Option.isNone_iff_eq_none] at hn; rw [hn] at hp; cases hp
    · rw [e, hsv]
    · rw [hsv] at ht; cases ht
  rw [hn]
  unfold State.settle
  simp

/-- a refused block is not stored by the refusal -/
theorem invalid_not_stored_by_delivery (s : NodeLedger.State) (b : Header)
    (hp : (s.node.header b.parent).isSome = true) (hv : s.validBlock b = false) :
    (s.processBlock b).1.node.header b.id = s.node.header b.id := by
  rw [invalid_never_stored s b hp hv]

/-! ## 2. the main chain moves only through an accepted ledger reorganisation -/

/-- every event (delivery, verification message, restart) either leaves best block, index,
    chain status, utxo set and contract table as they were, or moves them together along the
    attach list of `calcReorg`, which `ledgerReorg` accepted -/
theorem main_chain_moves_only_with_ledger (s : NodeLedger.State) (e : Ev) :
    Frozen s (step s e) ∨ ∃ att det, Moved s (step s e) att det :=
  step_spec s e

/-- over ALL event sequences: the persisted utxo set is the initial one, or it is what the last
    accepted `ledgerReorg` wrote — and best block and index are the ones that move wrote -/
theorem main_chain_applied (init : NodeLedger.State) (evs : List Ev) :
    ((run init evs).utxo = init.utxo ∧ (run init evs).node.best = init.node.best ∧
      (run init evs).node.index = init.node.index) ∨
    ∃ pre e suf att det, evs = pre ++ e :: suf ∧
      (run init pre).ledgerReorg att det = some ((run init evs).utxo, (run init evs).contracts) ∧
      (run init evs).node.index = att.foldl (fun ix h => alistSet ix h.height h.id) (run init pre).node.index ∧
      (run init evs).node.best ≠ (run init pre).node.best := by
  rcases run_last_move evs init with h | ⟨pre, e, suf, att, det, h1, h2, h3⟩
  · left; exact ⟨h.utxo, h.best, h.index⟩
  · right
    refine ⟨pre, e, suf, att, det, h1, ?_, ?_, ?_⟩
    · rw [h3.utxo, h3.contracts]; exact h2.ledger
    · rw [h3.index]; exact h2.index
    · rw [h3.best]; exact h2.best_ne

/-- every block a move attaches passed `applyBlockTxs` (on the view left by the blocks detached
    and attached before it, completed by the stored entries of the outputs it spends) -/
theorem attached_blocks_apply {pre res : NodeLedger.State} {att det : List Header} (m : Moved pre res att det)
    (before : List Header) (a : Header) (after : List Header) (h : att = before ++ a :: after) :
    ∃ vb v', applyBlockTxs pre.params a.height true (pre.txsOf a.id) (loadSpent pre.utxo (pre.txsOf a.id) vb) = some v' :=
  ledgerReorg_some_attached m.ledger before a after h

/-- … hence every input of every transaction of every attached block was, at its turn, present,
    unspent, not an immature coinbase output and not a locked vote output -/
theorem attached_inputs_spendable {pre res : NodeLedger.State} {att det : List Header} (m : Moved pre res att det)
    (before : List Header) (a : Header) (after : List Header) (h : att = before ++ a :: after) :
    ∃ vb, ∀ (tpre : List Tx) (t : Tx) (tsuf : List Tx), pre.txsOf a.id = tpre ++ t :: tsuf →
      ∃ vm, applyBlockTxs pre.params a.height true tpre (loadSpent pre.utxo (pre.txsOf a.id) vb) = some vm ∧
        InputsSpendable pre.params a.height vm t.ins := by
  obtain ⟨vb, v', hv⟩ := attached_blocks_apply m before a after h
  exact ⟨vb, fun tpre t tsuf e => applyBlockTxs_some_inputs hv tpre t tsuf e⟩

/-- rule "missing": a block with a transaction that spends an output absent from the view at
    that point fails `applyBlockTxs` -/
theorem spend_of_missing_output_refused {p : Params} {h : Nat} {first : Bool} {pre suf : List Tx} {t : Tx}
    {v vm vi : View} {ipre isuf : List Nat} {o : Nat}
    (hpre : applyBlockTxs p h first pre v = some vm) (hins : t.ins = ipre ++ o :: isuf)
    (hip : applySpend p h ipre vm = some vi) (hbad : vget vi o = none) :
    applyBlockTxs p h first (pre ++ t :: suf) v = none := by
  apply applyBlockTxs_bad_input hpre hins hip
  rintro ⟨e, he, _⟩
  rw [hbad] at he; cases he

/-- rule "already spent" (cross-block: the stored entry is marked spent; in-block: an earlier
    input or transaction of the same block marked it) -/
theorem spend_of_spent_output_refused {p : Params} {h : Nat} {first : Bool} {pre suf : List Tx} {t : Tx}
    {v vm vi : View} {ipre isuf : List Nat} {o : Nat} {e : Entry}
    (hpre : applyBlockTxs p h first pre v = some vm) (hins : t.ins = ipre ++ o :: isuf)
    (hip : applySpend p h ipre vm = some vi) (hg : vget vi o = some e) (hsp : e.spent = true) :
    applyBlockTxs p h first (pre ++ t :: suf) v = none := by
  apply applyBlockTxs_bad_input hpre hins hip
  rintro ⟨e', he, hs, _⟩
  rw [hg] at he; injection he with he; rw [← he, hsp] at hs; cases hs

/-- rule "immature coinbase" -/
theorem spend_of_immature_coinbase_refused {p : Params} {h : Nat} {first : Bool} {pre suf : List Tx} {t : Tx}
    {v vm vi : View} {ipre isuf : List Nat} {o : Nat} {e : Entry}
    (hpre : applyBlockTxs p h first pre v = some vm) (hins : t.ins = ipre ++ o :: isuf)
    (hip : applySpend p h ipre vm = some vi) (hg : vget vi o = some e)
    (ht : e.typ = 1) (hy : e.height + p.coinbasePending > h) :
    applyBlockTxs p h first (pre ++ t :: suf) v = none := by
  apply applyBlockTxs_bad_input hpre hins hip
  rintro ⟨e', he, _, hc, _⟩
  rw [hg] at he; injection he with he; subst he; exact hc ⟨ht, hy⟩

/-- rule "locked vote" -/
theorem spend_of_locked_vote_refused {p : Params} {h : Nat} {first : Bool} {pre suf : List Tx} {t : Tx}
    {v vm vi : View} {ipre isuf : List Nat} {o : Nat} {e : Entry}
    (hpre : applyBlockTxs p h first pre v = some vm) (hins : t.ins = ipre ++ o :: isuf)
    (hip : applySpend p h ipre vm = some vi) (hg : vget vi o = some e)
    (ht : e.typ = 2) (hy : e.height + p.votePending > h) :
    applyBlockTxs p h first (pre ++ t :: suf) v = none := by
  apply applyBlockTxs_bad_input hpre hins hip
  rintro ⟨e', he, _, _, hc⟩
  rw [hg] at he; injection he with he; subst he; exact hc ⟨ht, hy⟩

/-- in-block double spend, one transaction: an output listed twice among the inputs of a
    transaction is refused on EVERY view (the first spend marks it, the second is refused) -/
theorem inblock_double_spend_same_tx_refused {p : Params} {h : Nat} (a b c : List Nat) (o : Nat) (v : View) :
    applySpend p h (a ++ o :: b ++ o :: c) v = none :=
  same_tx_double_spend a b c o v

/-- in-block double spend, two transactions: a block in which two transactions spend the same
    output, with no transaction from the first up to the second creating an output of that id
    (ids are hashes: never, in the real system), fails `applyBlockTxs` on EVERY view -/
theorem inblock_double_spend_refused {p : Params} {h : Nat} {first : Bool} (pre mid suf : List Tx) (t1 t2 : Tx)
    (o : Nat) (v : View) (h1 : o ∈ t1.ins) (h2 : o ∈ t2.ins)
    (hne : ∀ t, t ∈ t1 :: mid → ∀ x, x ∈ t.outs → x.id ≠ o) :
    applyBlockTxs p h first (pre ++ t1 :: mid ++ t2 :: suf) v = none :=
  cross_tx_double_spend pre mid suf t1 t2 o v h1 h2 hne

/-- a reorganisation whose attach list contains a block that fails `applyBlockTxs` (whatever the
    blocks before it left) is refused: best block, index, utxo set stay -/
theorem reorg_with_failing_block_refused (s : NodeLedger.State) (att det : List Header)
    (h : ∃ before a after, att = before ++ a :: after ∧
      ∀ vb, applyBlockTxs s.params a.height true (s.txsOf a.id) (loadSpent s.utxo (s.txsOf a.id) vb) = none) :
    s.ledgerReorg att det = none :=
  ledgerReorg_none_of_attach_fails h

/-- a fresh, header-valid block on top of the best block whose transactions break a spend rule
    is answered `err`; best block, index and utxo set do not move. (It IS stored and taken into
    the checkpoint tree: the starting point of F32.) -/
theorem context_invalid_block_not_connected (s : NodeLedger.State) (b : Header)
    (hno : NoOrphans s) (hfresh : s.node.header b.id = none) (hpar : b.parent = s.node.best)
    (hbest : (s.node.header s.node.best).isSome = true) (hm : (s.metaOf b.id).isSome = true)
    (hv : s.validBlock b = true) (hok : (s.node.saveBlock b).2 = true)
    (hfc : (s.node.saveBlock b).1.bestChain = b.id)
    (htx : applyBlockTxs s.params b.height true (s.txsOf b.id) (loadSpent s.utxo (s.txsOf b.id) []) = none) :
    (s.processBlock b).2 = .err ∧ (s.processBlock b).1.node.best = s.node.best ∧
    (s.processBlock b).1.utxo = s.utxo ∧ (s.processBlock b).1.node.index = s.node.index ∧
    ((s.processBlock b).1.node.header b.id).isSome = true ∧
    (s.processBlock b).1.node.bestChain = b.id :=
  context_invalid_extension_refused s b hno hfresh hpar hbest hm hv hok hfc htx

/-! ## 3. every main-chain block passed the rules -/

/-- For EVERY history — any delivery order: children before parents, invalid blocks before or
    after their ancestors, verification messages and restarts in between — every entry of the
    main-chain index of the reached state is an initial entry, or its block
    (a) was attached by a move in which it passed `applyBlockTxs` at its turn (the ledger rules), and
    (b) is a block stored at the start, or `StoredValid`: it had reached the node (delivered, or
        waiting in the pool), and `saveBlock` stored it — after its own delivery or when it left
        the orphan pool — in a node state with its parent stored in which `validBlock` was true. -/
theorem connected_implies_rules (init : NodeLedger.State) (evs : List Ev) :
    ∀ p, p ∈ (run init evs).node.index →
      p ∈ init.node.index ∨
      (∃ pre e suf att det before a after, evs = pre ++ e :: suf ∧ att = before ++ a :: after ∧ a.id = p.2 ∧
          Moved (run init pre) (step (run init pre) e) att det ∧
          (∃ vb v', applyBlockTxs (run init pre).params a.height true ((run init pre).txsOf a.id)
              (loadSpent (run init pre).utxo ((run init pre).txsOf a.id) vb) = some v') ∧
          ((∃ h0, h0 ∈ init.node.headers ∧ h0.id = p.2) ∨ StoredValid init evs p.2)) := by
  intro p hp
  rcases run_index evs init p hp with h | ⟨pre, e, suf, att, det, a, h1, h2, h3, h4⟩
  · left; exact h
  · right
    obtain ⟨before, after, hsplit⟩ := List.append_of_mem h3
    refine ⟨pre, e, suf, att, det, before, a, after, h1, hsplit, h4, h2, attached_blocks_apply h2 before a after hsplit, ?_⟩
    -- the attached block is stored right after the move; stored headers were validated
    have hst : a ∈ (run init (pre ++ [e])).node.headers := by
      rw [run_snoc]; exact h2.att_stored a h3
    rcases run_headers (pre ++ [e]) init a hst with h5 | h5
    · left; rw [← h4]; exact h5
    · right
      rw [← h4, h1, show pre ++ e :: suf = (pre ++ [e]) ++ suf by simp]
      exact h5.append suf

/-- every stored block of every history is an initial one or was `StoredValid`: it passed
    `validBlock` at the moment it was stored. Contrapositive: a block that fails `validBlock`
    whenever `saveBlock` looks at it is never stored, no matter when it arrives relative to its
    ancestors -/
theorem stored_implies_validated (init : NodeLedger.State) (evs : List Ev) :
    ∀ h, h ∈ (run init evs).node.headers →
      (∃ h0, h0 ∈ init.node.headers ∧ h0.id = h.id) ∨ StoredValid init evs h.id :=
  run_headers evs init

/-- a block that is invalid in every node state is never stored by any history (unless a block
    of that id was stored at the start) -/
theorem always_invalid_never_stored (init : NodeLedger.State) (evs : List Ev) (id : Nat)
    (hinit : ∀ h0, h0 ∈ init.node.headers → h0.id ≠ id)
    (hbad : ∀ (s : NodeLedger.State) (n : Node.State) (x : Header), Static init s → x.id = id → s.validIn n x = false) :
    ∀ h, h ∈ (run init evs).node.headers → h.id ≠ id := by
  intro h hh e
  rcases run_headers evs init h hh with ⟨h0, hm, hid⟩ | ⟨pre, b, suf, n, x, _, h2, _, _, _, _, h7⟩
  · exact hinit h0 hm (hid.trans e)
  · rw [hbad (run init pre) n x (run_static init pre) (h2.trans e)] at h7
    cases h7

/-- every block in the orphan pool of every reached state has been delivered -/
theorem pool_holds_delivered_blocks (init : NodeLedger.State) (evs : List Ev) :
    ∀ x, x ∈ (run init evs).node.orphans → WasDelivered init evs x :=
  run_orphans evs init

/-- the validating chain core coincides with `Model/Node.lean`'s `processBlock` whenever the
    delivered block and the waiting blocks are valid when validated — so every theorem about
    `Node.State.processBlock` (C10, C11, C12, C16 …) speaks about the node with ledger; e.g. on
    every stream that records no validation meta data -/
theorem processBlock_eq_node (s : NodeLedger.State) (b : Header) (hvb : s.validBlock b = true)
    (hv : ∀ x, x ∈ s.node.orphans → ∀ n, s.validIn n x = true) :
    s.processBlock b = s.settle (s.node.processBlock b).1 (s.node.processBlock b).2 := by
  rw [processBlock_eq_settle, BytomModel.Lemmas.C13.processBlock_eq_node s b hvb hv]

/-! ## 4. valid blocks are accepted -/

/-- a block that passes `validBlock` with its parent stored is stored by `processBlock` unless
    Casper (`ApplyBlock`, inside `saveBlock`) refuses it — whatever happens to the best chain -/
theorem valid_block_stored (s : NodeLedger.State) (b : Header)
    (hp : (s.node.header b.parent).isSome = true) (hv : s.validBlock b = true)
    (hk : alreadyProcessed s.node b = false) (hok : (s.node.saveBlock b).2 = true) :
    ((s.processBlock b).1.node.header b.id).isSome = true :=
  BytomModel.Lemmas.C13.valid_block_stored s b hp hv hk hok

/-- a block that "should be accepted": not yet known, extends the current best block, passes
    `validBlock` (with recorded validation data), is accepted by Casper, and its transactions
    apply to the persisted utxo set -/
structure ValidExtension (s : NodeLedger.State) (b : Header) : Prop where
  noOrphans : NoOrphans s
  fresh : s.node.header b.id = none
  parentIsBest : b.parent = s.node.best
  bestStored : (s.node.header s.node.best).isSome = true
  hasMeta : (s.metaOf b.id).isSome = true
  valid : s.validBlock b = true
  casper : (s.node.saveBlock b).2 = true
  txsApply : (applyBlockTxs s.params b.height true (s.txsOf b.id) (loadSpent s.utxo (s.txsOf b.id) [])).isSome = true

/-- full strength: in every state reached from genesis, a valid extension of the best block is
    answered `ok` and becomes the best block -/
def c13_valid_accepted_full : Prop :=
  ∀ (cfg : Config) (p : Params) (g : Header) (gtxs : List Tx) (defs : List Header)
    (metas : List (Nat × Meta)) (blockTxs : List (Nat × List Tx)) (evs : List Ev) (b : Header),
    let init : NodeLedger.State :=
      { NodeLedger.State.init cfg p g gtxs with
        node := { (NodeLedger.State.init cfg p g gtxs).node with defs := defs }, metas := metas, blockTxs := blockTxs }
    ValidExtension (run init evs) b →
      ((run init evs).processBlock b).2 = .ok ∧ ((run init evs).processBlock b).1.node.best = b.id

/-- F32: refuted by the witness history — after the context-invalid b4 was stored, the valid b5 is
    answered `err` and the best block stays b3 -/
theorem c13_valid_accepted_full_refuted : ¬ c13_valid_accepted_full := by
  intro h
  have h1 := h { epoch := 2, nVal := 1, me := none } {} Witness.g [] Witness.init.node.defs
    Witness.init.metas Witness.init.blockTxs Witness.history Witness.b5
  have hve : ValidExtension (run Witness.init Witness.history) Witness.b5 :=
    ⟨noOrphans_of_isEmpty _ (by decide +kernel) (by decide +kernel), by decide +kernel, by decide +kernel,
     by decide +kernel, by decide +kernel, by decide +kernel, by decide +kernel, by decide +kernel⟩
  have h2 := (h1 hve).1
  revert h2
  decide +kernel

/-- the witness, spelled out: b4 is stored but not connected; b5 is valid, stored, answered `err`,
    and the best block is still b3 although b5 is the only valid block at height 4 -/
theorem f32_witness :
    let s := run Witness.init Witness.history
    s.node.best = 3 ∧ (s.node.header 4).isSome = true ∧ s.validBlock Witness.b5 = true ∧
    (s.processBlock Witness.b5).2 = .err ∧ (s.processBlock Witness.b5).1.node.best = 3 ∧
    ((s.processBlock Witness.b5).1.node.header 5).isSome = true ∧
    (s.node.saveBlock Witness.b5).1.bestChain = 4 := by
  decide +kernel

/-- partial: the same statement for ANY state (reachable or not), under the additional
    hypothesis that the fork choice, after the block is saved, selects the block itself — i.e. no
    stored branch that cannot be applied (F32) or is otherwise preferred stands in the way.
    Then the block becomes the best block, the index gets its height, and the persisted utxo set
    is the block's `applyBlockTxs` result saved over the old set. -/
theorem c13_valid_accepted_partial (s : NodeLedger.State) (b : Header) (hve : ValidExtension s b)
    (hfc : (s.node.saveBlock b).1.bestChain = b.id) :
    (s.processBlock b).2 = .ok ∧ (s.processBlock b).1.node.best = b.id ∧
    (s.processBlock b).1.node.index = alistSet s.node.index b.height b.id ∧
    ∃ v', applyBlockTxs s.params b.height true (s.txsOf b.id) (loadSpent s.utxo (s.txsOf b.id) []) = some v' ∧
      (s.processBlock b).1.utxo = saveView s.utxo v' := by
  cases htx : applyBlockTxs s.params b.height true (s.txsOf b.id) (loadSpent s.utxo (s.txsOf b.id) []) with
  | none => have := hve.txsApply; rw [htx] at this; cases this
  | some v' =>
    obtain ⟨h1, h2, h3, h4⟩ := valid_extension_accepted s b v' hve.noOrphans hve.fresh hve.parentIsBest
      hve.bestStored hve.hasMeta hve.valid hve.casper hfc htx
    exact ⟨h1, h2, h4, v', rfl, h3⟩

/-! ## the hypotheses are satisfiable (tests on the witness history) -/

/-- out of order: b2 arrives before b1 (waits in the pool), b1 connects both; the invalid `bx`
    (child of b1 with a wrong height) arrives first of all and is dropped when b1 arrives — it is
    never stored and does not stay in the pool -/
example :
    let s := run Witness.init [.deliver Witness.bx, .deliver Witness.b2, .deliver Witness.b1]
    (s.node.header 1).isSome = true ∧ (s.node.header 2).isSome = true ∧ (s.node.header 6).isSome = false ∧
    s.node.orphans.isEmpty = true ∧ s.node.best = 2 ∧
    (run Witness.init [.deliver Witness.bx, .deliver Witness.b2]).node.orphans.length = 2 := by
  decide +kernel

/-- `processBlock_eq_node`'s hypothesis holds on states without validation meta data -/
example (s : NodeLedger.State) (b : Header) (hm : s.metas = []) :
    s.processBlock b = s.settle (s.node.processBlock b).1 (s.node.processBlock b).2 :=
  processBlock_eq_node s b (validIn_of_no_metas s hm s.node b) (fun x _ n => validIn_of_no_metas s hm n x)

/-- `ValidExtension` + fork choice selects the block: delivering b3 after b1, b2 (a valid block
    with a reward coinbase) -/
example :
    let s := run Witness.init [.deliver Witness.b1, .deliver Witness.b2]
    ValidExtension s Witness.b3 ∧ (s.node.saveBlock Witness.b3).1.bestChain = Witness.b3.id :=
  ⟨⟨noOrphans_of_isEmpty _ (by decide +kernel) (by decide +kernel), by decide +kernel, by decide +kernel,
    by decide +kernel, by decide +kernel, by decide +kernel, by decide +kernel, by decide +kernel⟩, by decide +kernel⟩

/-- `invalid_never_stored`: a copy of b3 with a wrong height is refused -/
example :
    let s := run Witness.init [.deliver Witness.b1, .deliver Witness.b2]
    let bad : Header := { Witness.b3 with height := 4 }
    (s.node.header bad.parent).isSome = true ∧ s.validBlock bad = false := by
  decide +kernel

/-- `context_invalid_block_not_connected`: b4 on top of b3 (spends the immature coinbase of b3) -/
example :
    let s := run Witness.init [.deliver Witness.b1, .deliver Witness.b2, .deliver Witness.b3]
    s.validBlock Witness.b4 = true ∧ (s.node.saveBlock Witness.b4).2 = true ∧
    (s.node.saveBlock Witness.b4).1.bestChain = 4 ∧
    applyBlockTxs s.params 4 true (s.txsOf 4) (loadSpent s.utxo (s.txsOf 4) []) = none := by
  decide +kernel

/-- `inblock_double_spend_refused`: two transactions spending o7 (shape of the generator's
    double-spend-inblock mutant) -/
example : applyBlockTxs {} 17 true
    ([{ id := 22, ins := [], outs := [{ id := 23, kind := .normal, amount := 0 }] }] ++
      { id := 20, ins := [7], outs := [{ id := 21, kind := .normal, amount := 5 }] } :: [] ++
      { id := 21, ins := [7], outs := [{ id := 22, kind := .normal, amount := 4 }] } :: [])
    [(7, { typ := 1, height := 4, spent := false })] = none :=
  inblock_double_spend_refused _ _ _ _ _ 7 _ (by decide) (by decide) (by decide)

/-- a `Moved` step exists: delivering b1 to the genesis state moves the best block -/
example : (step Witness.init (.deliver Witness.b1)).node.best ≠ Witness.init.node.best := by
  decide +kernel

end BytomModel.Props.C13
