/-
C37 — concurrent block, vote and transaction processing does not deadlock.

The claim is PARTIAL, and says so: what is proved is deadlock-freedom of the node's
*synchronisation skeleton* (every mutex, channel and condition-variable operation of the block /
vote / tx / read paths in source order, extracted from the Go code on every run and tied in
`Ties/C37.lean`), under every interleaving, for every number and kind of client goroutines.
Data races are a property of the Go memory model and of the actual field accesses; they are not
expressible in this model and are covered by the race-detector runs of the harness only.

Lock / wait order found in the code (and enforced by the checked discipline `wfSys sys ann`):

* `Casper.mu`, `Chain.cond.L`, `TxPool.mtx`, `OrphanManage.mtx` are all LEAVES: between taking and
  releasing one of them no goroutine takes another mutex, sends, receives or waits — with one
  exception that is the repaired F23: `AuthVerification` holds `casper.mu` across the call of
  `tryRollback`, and `tryRollback` releases it around its round trip to the block processor
  (`rollbackCh <- msg; <-msg.Reply`) and takes it again afterwards;
* hierarchy of waiting: a goroutine that holds a mutex waits for nothing but a mutex of a higher
  rank (there is none); the cached-vote loop (`authVerificationLoop`, level 1) waits only for
  mutexes; the block processor (`blockProcessor`, level 2) waits only for mutexes and for room in
  `newEpochCh` (64), i.e. for the cached-vote loop; every other goroutine (level 3) waits for
  mutexes, for room in `processBlockCh` (1024) / `rollbackCh` (64) and for the block processor's
  answer. The block processor never waits for a client: `processBlockMsg.reply` has room for its
  one answer, and the requester of a rollback stands at `<-msg.Reply` from the moment its
  message is in `rollbackCh`.
* a full `processBlockCh` or `rollbackCh` therefore blocks clients only, who hold nothing while
  they wait (that is the point of the F23 repair), and a full `newEpochCh` blocks the block
  processor inside `ApplyBlock` BEFORE it takes `casper.mu`: no cycle can close through a full
  channel.

`f23_deadlock_refuted_in_old_skeleton` shows that the theorem has teeth: for the skeleton as it
was before the repair (tryRollback keeps `casper.mu` while it waits) the deadlocked configuration
of finding F23 is reachable, and the discipline check rejects that skeleton.
-/
import BytomModel.Lemmas.SyncSkelProg

namespace BytomModel.Props.C37
open BytomModel BytomModel.SyncSkel

/-- The extracted skeleton obeys the locking / messaging discipline (checked by evaluation of
    the decidable checker on all 54 functions at all levels they may run at). -/
theorem skeleton_obeys_discipline : wfSys sys ann = true := by decide

/-- **Soundness of the discipline** — for EVERY system (skeleton table, capacities, daemons) that
    passes the check, every set of client goroutines whose programs pass it, and every
    configuration reachable under any interleaving: no non-empty set of threads is deadlocked. -/
theorem discipline_sound (S : Sys) (A : Ann) (hwf : wfSys S A = true) (clients : List (List Stmt))
    (hcl : ∀ p ∈ clients, chkL S A A.top TS.empty p = some TS.empty)
    (c : Config) (hr : Reach S (init S A.top clients) c) : ¬ Deadlocked S c :=
  not_deadlocked_of_inv (reach_inv hwf (init_inv hwf clients hcl) hr)

/-! ### the clients of the node -/

/-- the public entry points of the block / vote / tx / read paths (everything a peer, the API or
    the miner calls on Chain / Casper / TxPool / OrphanManage) -/
def api : List Fn := [
  f_Chain_ProcessBlock, f_Chain_ProcessBlockVerification, f_Chain_ValidateTx,
  f_Chain_BestBlockHeader, f_Chain_BestBlockHeight, f_Chain_BestBlockHash, f_Chain_BestChain,
  f_Chain_InMainChain, f_Chain_BlockExist, f_Chain_BlockWaiter, f_Chain_FinalizedHeight,
  f_Chain_LastFinalizedHeader, f_Chain_LastJustifiedHeader,
  f_Casper_AuthVerification, f_Casper_LastFinalized, f_Casper_LastJustified, f_Casper_BestChain,
  f_TxPool_ProcessTransaction, f_TxPool_RemoveTransaction, f_TxPool_GetTransaction, f_TxPool_GetTransactions,
  f_TxPool_HaveTransaction, f_TxPool_IsTransactionInPool, f_TxPool_IsTransactionInErrCache,
  f_TxPool_AddErrCache, f_TxPool_GetErrCache, f_TxPool_ExpireOrphan, f_TxPool_orphanExpireWorker,
  f_OrphanManage_Add, f_OrphanManage_BlockExist, f_OrphanManage_Delete, f_OrphanManage_Get,
  f_OrphanManage_GetPrevOrphans, f_OrphanManage_orphanExpire, f_OrphanManage_orphanExpireWorker]

/-- a goroutine that submits blocks for ever (`Chain.ProcessBlock`, through the channel) -/
def blockSubmitter : List Stmt := [.loop false [.call f_Chain_ProcessBlock]]
/-- a goroutine that handles verification messages of peers (`Chain.ProcessBlockVerification`) -/
def voteHandler : List Stmt := [.loop false [.call f_Chain_ProcessBlockVerification]]
/-- a goroutine that submits transactions (`Chain.ValidateTx`) -/
def txSubmitter : List Stmt := [.loop false [.call f_Chain_ValidateTx]]
/-- a reader: the read queries of the harness' readers and `BlockWaiter` -/
def reader : List Stmt :=
  [.loop false [.call f_Chain_BestBlockHeader, .call f_Chain_InMainChain, .call f_Chain_BestBlockHeight,
                .call f_Chain_LastFinalizedHeader, .call f_Chain_LastJustifiedHeader, .call f_TxPool_GetTransactions,
                .call f_Chain_BlockWaiter]]
/-- a goroutine that makes ANY sequence of calls of the public entry points -/
def anyCaller : List Stmt := [.loop false [.alt (api.map (fun f => [.call f]))]]

theorem clients_obey_discipline :
    [blockSubmitter, voteHandler, txSubmitter, reader, anyCaller].all
      (fun p => chkL sys ann ann.top TS.empty p == some TS.empty) = true := by decide

/-- **C37, deadlock part** — the node: block processor ×1, cached-vote loop ×1, and for EVERY
    number of block submitters, vote handlers, transaction submitters, readers and goroutines
    making arbitrary sequences of public calls: no reachable configuration of the skeleton
    system is deadlocked — in particular not when `processBlockCh`, `rollbackCh` or `newEpochCh`
    are full. -/
theorem no_deadlock (nb nv nt nr na : Nat) (c : Config)
    (hr : Reach sys (init sys levelClient
      (List.replicate nb blockSubmitter ++ List.replicate nv voteHandler ++ List.replicate nt txSubmitter
        ++ List.replicate nr reader ++ List.replicate na anyCaller)) c) :
    ¬ Deadlocked sys c := by
  refine discipline_sound sys ann skeleton_obeys_discipline _ ?_ c hr
  intro p hp
  have hall := clients_obey_discipline
  simp only [List.all_cons, List.all_nil, Bool.and_true, Bool.and_eq_true, beq_iff_eq] at hall
  simp only [List.mem_append, List.mem_replicate] at hp
  rcases hp with (((⟨_, rfl⟩ | ⟨_, rfl⟩) | ⟨_, rfl⟩) | ⟨_, rfl⟩) | ⟨_, rfl⟩
  · exact hall.1
  · exact hall.2.1
  · exact hall.2.2.1
  · exact hall.2.2.2.1
  · exact hall.2.2.2.2

/-- the same for any mix of client programs that obey the discipline (e.g. one-shot callers) -/
theorem no_deadlock_any_clients (clients : List (List Stmt))
    (hcl : ∀ p ∈ clients, chkL sys ann levelClient TS.empty p = some TS.empty)
    (c : Config) (hr : Reach sys (init sys levelClient clients) c) : ¬ Deadlocked sys c :=
  discipline_sound sys ann skeleton_obeys_discipline clients hcl c hr

/-- **progress (partial)** — in every reachable configuration of the node in which some goroutine
    is stuck (a call waits for a mutex, for room in a channel or for the block processor's answer),
    SOME goroutine has an enabled step: the node is never at a standstill with a call outstanding.
    (Following the providers of the stuck goroutine — holder of the mutex, block processor,
    cached-vote loop — ends at a goroutine that can move.) Partial: that the stuck call itself
    eventually returns needs a fair scheduler and termination of the sequential code between the
    synchronisation actions, neither of which is part of the model. -/
theorem progress_partial (clients : List (List Stmt))
    (hcl : ∀ p ∈ clients, chkL sys ann levelClient TS.empty p = some TS.empty)
    (c : Config) (hr : Reach sys (init sys levelClient clients) c) (hstuck : ∃ i, Stuck sys c i) :
    ∃ (j n p : Nat) (c' : Config), step sys c j n p = some c' :=
  some_thread_can_step (reach_inv skeleton_obeys_discipline (init_inv skeleton_obeys_discipline clients hcl) hr) hstuck

/-- the hypotheses are satisfiable on a non-trivial value: one caller of each kind -/
example : ∀ p ∈ [[Stmt.call f_Chain_ProcessBlock], [.call f_Chain_ProcessBlockVerification], [.call f_Chain_ValidateTx]],
    chkL sys ann levelClient TS.empty p = some TS.empty := by decide

/-! ### the theorem has teeth: the skeleton before the F23 repair -/

/-- `tryRollback` as it was before fix e3ea9721: the round trip to the block processor is made with
    `casper.mu` (taken by `AuthVerification`) still held. `oldSkeleton` is today's skeleton with that
    one function reverted (what reverting the fix gives now). -/
def oldTryRollback : List Stmt :=
  [.alt [[.act (.send ch_Casper_rollbackCh), .act (.recvReply rp_RollbackMsg_Reply)], []]]

def oldSkeleton : List (Fn × List Stmt) :=
  skeleton.map (fun fb => if fb.1 = f_Casper_tryRollback then (fb.1, oldTryRollback) else fb)

def oldSys : Sys := sysOf oldSkeleton

/-- the discipline check rejects the old skeleton -/
theorem old_skeleton_fails_discipline : wfSys oldSys ann = false := by decide

/-- the schedule of finding F23 with ONE vote handler (thread 2; 0 = block processor, 1 = cached-vote
    loop): the handler enters AuthVerification, takes casper.mu, the vote changes the best chain, it
    sends the rollback request and waits for the reply; the block processor takes the request and
    asks casper for the fork choice (`casper.BestChain()` → `mu.RLock()`; before fix 7fe07751 it got
    as far as tryReorganize → reorganizeChain → setState → casper.LastFinalized → `mu.RLock()`).
    (3 synchronisation steps — lock, send, rlock — and the administrative ones between them.) -/
def f23Schedule : List (Nat × Nat × Nat) :=
  [(2,0,0),(2,0,0),(2,0,0),(2,0,0),(2,1,0),(2,0,0),(2,0,0),(2,0,0),
   (0,1,0),(0,1,2),(0,0,0)]

def f23Init : Config := init oldSys levelClient [[.call f_Chain_ProcessBlockVerification]]

/-- the threads of the configuration the schedule ends in -/
def f23Threads : List Thread :=
  [ { prog := [.act (.rlock m_Casper_mu), .act (.runlock m_Casper_mu), .call f_Chain_tryReorganize,
               .act (.sendReply rp_RollbackMsg_Reply)] ++ oldSys.bodyOf f_Chain_blockProcessor,
      held := [], pw := none, st := .idle, peer := some (2, rp_RollbackMsg_Reply), lvl := 2 },
    { prog := oldSys.bodyOf f_Casper_authVerificationLoop,
      held := [], pw := none, st := .idle, peer := none, lvl := 1 },
    { prog := [.act (.recvReply rp_RollbackMsg_Reply), .act (.unlock m_Casper_mu)],
      held := [(m_Casper_mu, .W)], pw := none, st := .served rp_RollbackMsg_Reply, peer := none, lvl := 3 } ]

theorem f23_schedule_runs : (run oldSys f23Init f23Schedule).map (·.threads) = some f23Threads := by decide

theorem run_reach {S : Sys} {c₀ : Config} : ∀ (ms : List (Nat × Nat × Nat)) (c c' : Config),
    Reach S c₀ c → run S c ms = some c' → Reach S c₀ c'
  | [], c, c', hr, h => by simp only [run, Option.some.injEq] at h; rw [← h]; exact hr
  | (i, n, p) :: ms, c, c', hr, h => by
    simp only [run] at h
    cases hs : step S c i n p with
    | none => rw [hs] at h; cases h
    | some c1 => rw [hs] at h; exact run_reach ms c1 c' (Reach.step i n p hr hs) h

/-- **F23 in the old skeleton**: the block processor waits for `casper.mu` (read lock in
    `BestChain`; `LastFinalized` before fix 7fe07751), which the vote handler holds while it waits for the block processor's reply:
    `{block processor, vote handler}` is a deadlocked set, reachable with a single vote handler.
    So `no_deadlock`, stated for the pre-fix skeleton, is FALSE. -/
theorem f23_deadlock_refuted_in_old_skeleton :
    ¬ (∀ c, Reach oldSys (init oldSys levelClient [[.call f_Chain_ProcessBlockVerification]]) c → ¬ Deadlocked oldSys c) := by
  intro hall
  have hrun := f23_schedule_runs
  cases hc : run oldSys f23Init f23Schedule with
  | none => rw [hc] at hrun; cases hrun
  | some c =>
    rw [hc] at hrun
    simp only [Option.map_some, Option.some.injEq] at hrun
    have hreach : Reach oldSys f23Init c := run_reach _ _ _ Reach.refl hc
    apply hall c hreach
    -- the deadlocked set
    refine ⟨[0, 2], by simp, ?_⟩
    have h0 : c.threads[0]? = some (f23Threads[0]) := by rw [hrun]; rfl
    have h1 : c.threads[1]? = some (f23Threads[1]) := by rw [hrun]; rfl
    have h2 : c.threads[2]? = some (f23Threads[2]) := by rw [hrun]; rfl
    have h3 : ∀ j, c.threads[j + 3]? = none := by intro j; rw [hrun]; rfl
    have hW : c.holdsW m_Casper_mu = true := by simp only [Config.holdsW, hrun]; decide
    intro i hi
    simp only [List.mem_cons, List.mem_nil_iff, or_false] at hi
    rcases hi with rfl | rfl
    · -- the block processor: stuck at `mu.RLock()`, only the vote handler can provide
      refine ⟨⟨⟨_, h0, by decide, ?_⟩, ?_⟩, ?_⟩
      · intro n p
        simp only [step, h0]
        simp [stepT, f23Threads, hW]
      · rintro ⟨t, arms, k, ht, hp⟩
        rw [h0] at ht; cases ht
        simp [f23Threads] at hp
      · rintro j ⟨t, u, ht, hu, hm⟩
        rw [h0] at ht; cases ht
        match j with
        | 0 => simp
        | 2 => simp
        | 1 =>
          rw [h1] at hu; cases hu
          simp [f23Threads, m_Casper_mu, oldSys, sysOf] at hm
        | j + 3 => rw [h3] at hu; cases hu
    · -- the vote handler: its request was taken, only the block processor owes the reply
      refine ⟨⟨⟨_, h2, by decide, ?_⟩, ?_⟩, ?_⟩
      · intro n p
        simp only [step, h2]
        simp [stepT, f23Threads]
      · rintro ⟨t, arms, k, ht, hp⟩
        rw [h2] at ht; cases ht
        simp [f23Threads] at hp
      · rintro j ⟨t, u, ht, hu, hm⟩
        rw [h2] at ht; cases ht
        match j with
        | 0 => simp
        | 2 => simp
        | 1 =>
          rw [h1] at hu; cases hu
          simp [f23Threads] at hm
        | j + 3 => rw [h3] at hu; cases hu

/-- the same schedule on the repaired skeleton (one more step of the vote handler: the `Unlock`
    in tryRollback) ends with the vote handler waiting for the reply WITHOUT the mutex, and the
    block processor's `RLock` goes through (a test on one schedule, not a theorem about all) -/
theorem f23_schedule_harmless_now :
    ((run sys (init sys levelClient [[.call f_Chain_ProcessBlockVerification]])
        (f23Schedule.take 7 ++ [(2,0,0), (2,0,0)] ++ f23Schedule.drop 8 ++ [(0,0,0)])).map
          (fun c => c.threads.map (·.held)))
      = some [[(m_Casper_mu, .R)], [], []] := by decide

/-! ### the hypothesis of `progress_partial` is satisfiable: a reachable configuration of the
node with a stuck goroutine (two callers of `TxPool.RemoveTransaction`: the first holds
`TxPool.mtx`, the second waits for it) -/

def contendInit : Config :=
  init sys levelClient [[.call f_TxPool_RemoveTransaction], [.call f_TxPool_RemoveTransaction]]
def contendSchedule : List (Nat × Nat × Nat) := [(2,0,0), (2,0,0), (2,0,0), (3,0,0)]
def contendThreads : List Thread :=
  [ mkThread (sys.bodyOf f_Chain_blockProcessor) 2, mkThread (sys.bodyOf f_Casper_authVerificationLoop) 1,
    { prog := [.act (.unlock m_TxPool_mtx)], held := [(m_TxPool_mtx, .W)], pw := none, st := .idle, peer := none, lvl := 3 },
    { prog := [.act (.lock m_TxPool_mtx), .act (.unlock m_TxPool_mtx)], held := [], pw := none, st := .idle, peer := none, lvl := 3 } ]

theorem contend_runs : (run sys contendInit contendSchedule).map (·.threads) = some contendThreads := by decide

example : ∃ c, Reach sys contendInit c ∧ ∃ i, Stuck sys c i := by
  have hrun := contend_runs
  cases hc : run sys contendInit contendSchedule with
  | none => rw [hc] at hrun; cases hrun
  | some c =>
    rw [hc] at hrun
    simp only [Option.map_some, Option.some.injEq] at hrun
    refine ⟨c, run_reach _ _ _ Reach.refl hc, 3, ?_⟩
    have h3 : c.threads[3]? = some (contendThreads[3]) := by rw [hrun]; rfl
    have hW : c.holdsW m_TxPool_mtx = true := by simp only [Config.holdsW, hrun]; decide
    refine ⟨⟨_, h3, by decide, ?_⟩, ?_⟩
    · intro n p
      simp only [step, h3]
      simp [stepT, contendThreads, hW]
    · rintro ⟨t, arms, k, ht, hp⟩
      rw [h3] at ht; cases ht
      simp [contendThreads] at hp

end BytomModel.Props.C37
