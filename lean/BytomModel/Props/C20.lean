/-
C20 — storage backends are interchangeable.

Two models (`Model/KV.lean`): `Spec` — the abstract ordered store that `go_level_db.go`
delegates to (observed against the real GoLevelDB on every run), and `Mem` — `mem_db.go` as
it is NOW (after 686eb360: `IteratorPrefixWithStart` honours its prefix).

* `memdb_refines_spec` — for ALL sequences of get / set(non-nil) / delete / batch / prefix
  iteration / start-bounded iteration with ANY prefix (forward, or reverse without a start key)
  MemDB and the store return identical results (induction over the sequence with `R`).
  F24a is repaired: its old witness is now an `example` of agreement.
* `memdb_refines_spec_handles` — the same with batches as long-lived HANDLES (`bnew/bset/bdel/bwrite`,
  several alive, each written repeatedly): both backends replay a handle's records on every `Write`.
* `c20_full` (no restriction at all) is still REFUTED by the open findings:
  `c20_reverse_refuted` (F24b), `c20_nil_value_refuted` (F24c), `c20_set_alias_refuted` (F24d),
  `c20_get_alias_refuted` (F24e), `c20_batch_alias_refuted` (F24f); `c20_full_refuted` uses the
  nil-value witness.
-/
import BytomModel.Lemmas.KVRefine

namespace BytomModel.Props.C20
open BytomModel.KV BytomModel.Lemmas.KV

/-! ### laws of the abstract store -/

/-- a store reachable by writes is strictly ascending in its keys (so iteration order is the
    byte order and keys are unique) -/
theorem spec_sorted_invariant (s : Spec) (hs : SSorted s) (op : Op) : SSorted (Spec.step s op).1 := by
  cases op with
  | get k => exact hs
  | set k v => exact set_sorted s k _ hs
  | del k => exact delete_sorted s k hs
  | batch ops =>
    show SSorted (Spec.batch s ops)
    unfold Spec.batch
    induction ops generalizing s with
    | nil => exact hs
    | cons b bs ih =>
      apply ih
      cases b with
      | set k v => exact set_sorted s k _ hs
      | del k => exact delete_sorted s k hs
  | iterPrefix p => exact hs
  | iterWS p st rev => exact hs
  | setMut k v => exact set_sorted s k v hs
  | getMut k => exact hs
  | batchMut k v => exact set_sorted _ k v (delete_sorted _ _ (set_sorted s k v hs))

theorem get_set (s : Spec) (k k' v : Bytes) :
    Spec.get (Spec.set s k v) k' = if k' = k then some v else Spec.get s k' := spec_get_set s k k' v

theorem get_delete (s : Spec) (hs : SSorted s) (k k' : Bytes) :
    Spec.get (Spec.delete s k) k' = if k' = k then none else Spec.get s k' := spec_get_delete s hs k k'

/-- a batch is the left fold of its operations, applied at `Write` -/
theorem batch_eq_fold (s : Spec) (ops : List BOp) : Spec.batch s ops = ops.foldl Spec.applyB s := rfl

/-- prefix iteration yields exactly the stored entries whose key has the prefix, ascending -/
theorem iterPrefix_spec (s : Spec) (hs : SSorted s) (p : Bytes) :
    (∀ kv, kv ∈ Spec.iterPrefix s p ↔ kv ∈ s ∧ hasPrefix p kv.1 = true) ∧
    Asc ((Spec.iterPrefix s p).map Prod.fst) :=
  ⟨fun _ => List.mem_filter, asc_filter_keys s hs _⟩

/-- forward start-bounded iteration: the iterator is positioned AT the first entry with the
    prefix and key `≥ start`; `Next` then yields the later ones — together exactly the entries
    with the prefix and key `≥ start`, ascending -/
theorem iterPrefixWithStart_spec (s : Spec) (hs : SSorted s) (p st : Bytes) :
    let r := Spec.iterWS s p (some st) false
    r.1.toList ++ r.2 = s.filter (fun kv => hasPrefix p kv.1 && !blt kv.1 st) := by
  have h : (Spec.iterPrefix s p).dropWhile (fun kv => blt kv.1 st)
      = s.filter (fun kv => hasPrefix p kv.1 && !blt kv.1 st) := by
    unfold Spec.iterPrefix
    rw [dropWhile_eq_filter st _ (asc_filter_keys s hs _), List.filter_filter]
    apply List.filter_congr
    intro kv _
    exact Bool.and_comm _ _
  simp only [Spec.iterWS]
  rw [h]
  cases s.filter (fun kv => hasPrefix p kv.1 && !blt kv.1 st) <;> rfl

/-! ### MemDB refines the store -/

def AllowedB : BOp → Prop
  | .set _ v => v ≠ none
  | .del _ => True

/-- the operations on which the two backends are proved interchangeable -/
def Allowed : Op → Prop
  | .get _ => True
  | .set _ v => v ≠ none
  | .del _ => True
  | .batch ops => ∀ b ∈ ops, AllowedB b
  | .iterPrefix _ => True
  | .iterWS _ st rev => rev = false ∨ st = none
  | .setMut _ _ => False
  | .getMut _ => False
  | .batchMut _ _ => False

theorem batch_refines {m s} (r : R m s) (ops : List BOp) (h : ∀ b ∈ ops, AllowedB b) :
    R (Mem.batch m ops) (Spec.batch s ops) := by
  unfold Mem.batch Spec.batch
  induction ops generalizing m s with
  | nil => exact r
  | cons b bs ih =>
    have hb := h b (by simp)
    have hbs : ∀ b ∈ bs, AllowedB b := fun x hx => h x (List.mem_cons_of_mem _ hx)
    simp only [List.foldl_cons]
    apply ih _ hbs
    cases b with
    | set k v =>
      cases v with
      | none => exact absurd rfl hb
      | some v => exact r.set k v
    | del k => exact r.delete k

/-- start-bounded iteration agrees for every prefix (forward, or any direction with a nil start) -/
theorem iterWS_agree {m s} (r : R m s) (p : Bytes) (st : Option Bytes) (rev : Bool)
    (hdir : rev = false ∨ st = none) :
    (Mem.step m (.iterWS p st rev)).2 = (Spec.step s (.iterWS p st rev)).2 := by
  cases st with
  | none => simp only [Mem.step, Spec.step]; rw [r.iterWS_none p rev]
  | some st =>
    have : rev = false := by
      rcases hdir with h | h
      · exact h
      · cases h
    subst this
    simp only [Mem.step, Spec.step]; rw [r.iterWS_forward p st]

theorem step_refines {m s} (r : R m s) (op : Op) (h : Allowed op) :
    R (Mem.step m op).1 (Spec.step s op).1 ∧ (Mem.step m op).2 = (Spec.step s op).2 := by
  cases op with
  | get k => exact ⟨r, by simp only [Mem.step, Spec.step]; rw [r.get]⟩
  | set k v =>
    cases v with
    | none => exact absurd rfl h
    | some v => exact ⟨r.set k v, rfl⟩
  | del k => exact ⟨r.delete k, rfl⟩
  | batch ops => exact ⟨batch_refines r ops h, rfl⟩
  | iterPrefix p => exact ⟨r, by simp only [Mem.step, Spec.step]; rw [r.iterPrefix]⟩
  | iterWS p st rev => exact ⟨r, iterWS_agree r p st rev h⟩
  | setMut k v => exact absurd h id
  | getMut k => exact absurd h id
  | batchMut k v => exact absurd h id

theorem run_refines {m s} (r : R m s) (ops : List Op) (h : ∀ op ∈ ops, Allowed op) :
    Mem.run m ops = Spec.run s ops := by
  induction ops generalizing m s with
  | nil => rfl
  | cons op ops ih =>
    have hs := step_refines r op (h op (by simp))
    simp only [Mem.run, Spec.run]
    rw [hs.2, ih hs.1 (fun o ho => h o (List.mem_cons_of_mem _ ho))]

/-- **C20.** For every sequence of gets, sets of non-nil values, deletes, batches, prefix
    iterations and start-bounded iterations under ANY prefix (forward, or reverse without a
    start key), MemDB and the ordered store return identical results. -/
theorem memdb_refines_spec (ops : List Op) (h : ∀ op ∈ ops, Allowed op) :
    Mem.run [] ops = Spec.run [] ops := run_refines R.empty ops h

/-- the hypotheses are satisfiable on a non-trivial sequence (a test, by evaluation) -/
example : ∀ op ∈ ([.set [0x62] (some [2]), .set [0x61, 0] (some []), .batch [.set [0x61] (some [1]), .del [0x62]],
    .iterPrefix [0x61], .iterWS [0x61] (some [0x61, 0]) false, .iterWS [0x62] none true, .get [0x62]] : List Op), Allowed op := by
  intro op h
  simp only [List.mem_cons, List.mem_nil_iff, or_false] at h
  rcases h with h | h | h | h | h | h | h <;> subst h <;> simp [Allowed, AllowedB]

example : Mem.run [] [.set [0x62] (some [2]), .set [0x61, 0] (some []), .iterWS [] (some [0x61, 0]) false]
    = [.ok, .ok, .seq (some ([0x61, 0], some [])) [([0x62], some [2])]] := by decide

/-! ### batch handles: a handle may be written any number of times -/

def AllowedH : HOp → Prop
  | .plain op => Allowed op
  | .bset _ _ v => v ≠ none
  | _ => True

/-- every operation recorded in a live handle stores a non-nil value -/
def HandlesOK (hs : Handles) : Prop := ∀ e ∈ hs, ∀ b ∈ e.2, AllowedB b

theorem hGet_ok {hs : Handles} (hok : HandlesOK hs) (h : Nat) : ∀ b ∈ hGet hs h, AllowedB b := by
  unfold hGet
  cases hf : hs.find? (fun e => e.1 == h) with
  | none => intro b hb; cases hb
  | some e => exact hok e (List.mem_of_find?_eq_some hf)

theorem hSet_ok {hs : Handles} (hok : HandlesOK hs) (h : Nat) (ops : List BOp) (ho : ∀ b ∈ ops, AllowedB b) :
    HandlesOK (hSet hs h ops) := by
  intro e he
  unfold hSet at he
  rcases List.mem_cons.mp he with h1 | h1
  · subst h1; exact ho
  · exact hok e (List.mem_filter.mp h1).1

theorem stepH_refines {m s} (r : R m s) {hs : Handles} (hok : HandlesOK hs) (op : HOp) (h : AllowedH op) :
    R (Mem.stepH (m, hs) op).1.1 (Spec.stepH (s, hs) op).1.1 ∧
    (Mem.stepH (m, hs) op).1.2 = (Spec.stepH (s, hs) op).1.2 ∧
    HandlesOK (Mem.stepH (m, hs) op).1.2 ∧
    (Mem.stepH (m, hs) op).2 = (Spec.stepH (s, hs) op).2 := by
  cases op with
  | plain op =>
    have := step_refines r op h
    exact ⟨this.1, rfl, hok, this.2⟩
  | bnew hd => exact ⟨r, rfl, hSet_ok hok hd [] (by intro b hb; cases hb), rfl⟩
  | bset hd k v =>
    refine ⟨r, rfl, hSet_ok hok hd _ ?_, rfl⟩
    intro b hb
    rcases List.mem_append.mp hb with h1 | h1
    · exact hGet_ok hok hd b h1
    · simp only [List.mem_singleton] at h1; subst h1; exact h
  | bdel hd k =>
    refine ⟨r, rfl, hSet_ok hok hd _ ?_, rfl⟩
    intro b hb
    rcases List.mem_append.mp hb with h1 | h1
    · exact hGet_ok hok hd b h1
    · simp only [List.mem_singleton] at h1; subst h1; trivial
  | bwrite hd => exact ⟨batch_refines r _ (hGet_ok hok hd), rfl, hok, rfl⟩

theorem runH_refines {m s} (r : R m s) {hs : Handles} (hok : HandlesOK hs) (ops : List HOp)
    (h : ∀ op ∈ ops, AllowedH op) : Mem.runH (m, hs) ops = Spec.runH (s, hs) ops := by
  induction ops generalizing m s hs with
  | nil => rfl
  | cons op ops ih =>
    obtain ⟨h1, h2, h3, h4⟩ := stepH_refines r hok op (h op (by simp))
    simp only [Mem.runH, Spec.runH]
    rw [h4]
    congr 1
    have e1 : (Mem.stepH (m, hs) op).1 = ((Mem.stepH (m, hs) op).1.1, (Mem.stepH (m, hs) op).1.2) := rfl
    have e2 : (Spec.stepH (s, hs) op).1 = ((Spec.stepH (s, hs) op).1.1, (Mem.stepH (m, hs) op).1.2) := by rw [h2]
    rw [e1, e2]
    exact ih h1 h3 (fun o ho => h o (List.mem_cons_of_mem _ ho))

/-- **C20 with batch handles.** Also when batches are long-lived handles — several alive at once,
    each written any number of times with arbitrary other operations in between (a later `Write`
    replays everything the handle recorded so far, on BOTH backends) — MemDB and the ordered store
    return identical results. -/
theorem memdb_refines_spec_handles (ops : List HOp) (h : ∀ op ∈ ops, AllowedH op) :
    Mem.runH ([], []) ops = Spec.runH ([], []) ops :=
  runH_refines R.empty (by intro e he; cases he) ops h

/-- the second `Write` of a handle replays its records: the deleted key is back, the overwrite undone
    (a test by evaluation; the same on both models) -/
example :
    let ops : List HOp := [.bnew 1, .bset 1 [0x61, 0x31] (some [1]), .bset 1 [0x61, 0x32] (some [2]), .bwrite 1,
      .plain (.del [0x61, 0x31]), .plain (.set [0x61, 0x32] (some [0xff])), .bset 1 [0x61, 0x33] (some [3]), .bwrite 1,
      .plain (.iterPrefix [0x61])]
    Mem.runH ([], []) ops = Spec.runH ([], []) ops ∧
    (Spec.runH ([], []) ops).getLast? =
      some (.seq none [([0x61, 0x31], some [1]), ([0x61, 0x32], some [2]), ([0x61, 0x33], some [3])]) := by decide


/-! ### the full statement and its refutations -/

/-- the property as stated: on every operation sequence MemDB and the ordered store agree -/
def c20_full : Prop := ∀ ops : List Op, Mem.run [] ops = Spec.run [] ops

/-- still false without restriction (witness: F24c, a nil value) -/
theorem c20_full_refuted : ¬ c20_full := by
  intro h
  have := h [.set [0x61] none, .get [0x61]]
  revert this
  decide

/-- the witness of the repaired F24a (keys 61, 62; prefix 61, start 61, forward) now agrees -/
example : Mem.run [] [.set [0x61] (some [1]), .set [0x62] (some [2]), .iterWS [0x61] (some [0x61]) false]
    = Spec.run [] [.set [0x61] (some [1]), .set [0x62] (some [2]), .iterWS [0x61] (some [0x61]) false] := by decide

/-- F24b: reverse iteration with a start key (prefix empty, so F24a is not involved) -/
theorem c20_reverse_refuted :
    Mem.run [] [.set [0x61] (some [1]), .set [0x62] (some [2]), .set [0x63] (some [3]), .iterWS [] (some [0x62]) true]
    ≠ Spec.run [] [.set [0x61] (some [1]), .set [0x62] (some [2]), .set [0x63] (some [3]), .iterWS [] (some [0x62]) true] := by
  decide

/-- F24c: a nil value reads back as nil from MemDB and as the empty string from the store -/
theorem c20_nil_value_refuted :
    Mem.run [] [.set [0x61] none, .get [0x61]] ≠ Spec.run [] [.set [0x61] none, .get [0x61]] := by decide

/-- F24d: MemDB keeps the caller's slice -/
theorem c20_set_alias_refuted :
    Mem.run [] [.setMut [0x61] [1, 2]] ≠ Spec.run [] [.setMut [0x61] [1, 2]] := by decide

/-- F24e: MemDB hands out the stored slice -/
theorem c20_get_alias_refuted :
    Mem.run [] [.set [0x61] (some [1, 2]), .getMut [0x61]] ≠ Spec.run [] [.set [0x61] (some [1, 2]), .getMut [0x61]] := by
  decide

/-- F24f: a MemDB batch keeps the caller's key and value slices until `Write` -/
theorem c20_batch_alias_refuted :
    Mem.run [] [.batchMut [0x61] [1, 2]] ≠ Spec.run [] [.batchMut [0x61] [1, 2]] := by decide

/-- an EMPTY (non-nil) value is a present key in both models: `Get` answers `some []`, prefix
    iteration lists it with the empty value (what a copy-through-`append(nil, …)` would break) -/
example : Mem.run [] [.set [0x61] (some []), .get [0x61], .iterPrefix [0x61]]
    = [.ok, .val (some []), .seq none [([0x61], some [])]] ∧
    Spec.run [] [.set [0x61] (some []), .get [0x61], .iterPrefix [0x61]]
    = [.ok, .val (some []), .seq none [([0x61], some [])]] := by decide

end BytomModel.Props.C20
