/-
C20 — storage backends are interchangeable (first milestone: refutation witnesses; the
refinement theorems follow).
-/
import BytomModel.Model.KV

namespace BytomModel.Props.C20
open BytomModel.KV

/-- the property as stated: on every operation sequence MemDB and the ordered store agree -/
def c20_full : Prop := ∀ ops : List Op, Mem.run [] ops = Spec.run [] ops

/-- F24a: `IteratorPrefixWithStart` of MemDB ignores the prefix -/
theorem c20_full_refuted : ¬ c20_full := by
  intro h
  have := h [.set [0x61] (some [1]), .set [0x62] (some [2]), .iterWS [0x61] (some [0x61]) false]
  revert this
  decide

end BytomModel.Props.C20
