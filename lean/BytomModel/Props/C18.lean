/-
C18 — The node never signs or admits slashable votes.

What the code guarantees, and what it does not (all statements about `BytomModel.Node`, runs as in
Props/C17):
* `verifySpanHeight` looks at the in-memory checkpoint tree.  PROVED for all runs without restart
  (`tree_votes_no_surround`): among the votes recorded inside the tree no vote of a validator strictly
  surrounds another vote of that validator.
* The node's own vote is produced only if it passes `verifyVerification` against the tree and the
  stored headers at that moment, from the last justified ancestor (`own_vote_is_checked`); a verification
  message is posted/admitted only if it passes too (`message_admitted_only_if_verified`).
* The FULL property (no slashable pair among ALL votes the node admitted or produced: tree ∪ posted
  messages) is REFUTED without any restart (`c18_full_refuted`, finding F35): the tree forgets every
  branch that does not descend from a newly finalized checkpoint, and with it the votes the span rule
  would have to be checked against.
* Across a restart even the tree-only statement fails (`c18_tree_across_restart_refuted`, findings
  F10b/F10c): reloaded checkpoints take the sup links of the stored headers, which were never checked.
* The same-target-height half for the tree (`verifySameHeight` reads the stored headers of persisted
  checkpoints of that height) is NOT proved here; it is covered by the differential oracle only
  (see notes/C18.md; F31 was a counterexample until fix 02b64017).
-/
import BytomModel.Lemmas.CasperC18
import BytomModel.Lemmas.CasperRun

namespace BytomModel.Props.C18
open BytomModel.Node

deriving instance DecidableEq for Header
deriving instance DecidableEq for CkptRec
deriving instance DecidableEq for Ckpt

/-- the C18 invariant holds after every run without restart -/
theorem inv18_run (U : Universe) (cfg : Config) (genesis : Header) (evs : List Event)
    (he : 2 ≤ cfg.epoch) (hg : genesis.id = U.g) (h0 : genesis.height = 0) (hr : RunOK U evs) :
    Inv18 U (run (State.init cfg genesis) evs) :=
  run_invariant U (presented evs) (fun _ _ hi m => Micro.preserves_Inv18 hi m) cfg genesis hg h0
    (Inv18_init U cfg genesis he hg h0) evs hr.events_ok

/-- **No surround pair inside the tree.** After any run without restart: if validator `o` has, inside the
    in-memory checkpoint tree, a vote from source height `a` to a checkpoint of height `b` and one from
    `c` to `d`, then the first does not strictly surround the second (`a < c ∧ d < b` is impossible) —
    and, the statement being symmetric, neither lies strictly inside the other. -/
theorem tree_votes_no_surround (U : Universe) (cfg : Config) (genesis : Header) (evs : List Event)
    (he : 2 ≤ cfg.epoch) (hg : genesis.id = U.g) (h0 : genesis.height = 0) (hr : RunOK U evs) :
    ∀ o a b c d, HasVote (run (State.init cfg genesis) evs).tree o a b →
      HasVote (run (State.init cfg genesis) evs).tree o c d → ¬ (a < c ∧ d < b) :=
  (inv18_run U cfg genesis evs he hg h0 hr).2.2

/-- the source height recorded in a link is the height of the link's source block -/
theorem tree_links_have_true_source_height (U : Universe) (cfg : Config) (genesis : Header) (evs : List Event)
    (he : 2 ≤ cfg.epoch) (hg : genesis.id = U.g) (h0 : genesis.height = 0) (hr : RunOK U evs) :
    ∀ c ∈ (run (State.init cfg genesis) evs).tree.flatten, ∀ l ∈ c.sup, l.srcHeight = U.height l.src :=
  (inv18_run U cfg genesis evs he hg h0 hr).2.1

/-- **The step that admits a vote has checked the span rule.** Whenever a signature slot enters the tree
    (`Micro.addSig`, the only step that adds one) the vote passed `verifySpanHeight` against the tree as
    it is at that moment; this is the guard `spanOK` carried by the step (Lemmas/CasperSteps). Stated
    here for `authVerification`: a message changes the posted list only if it passed `verifyVerification`. -/
theorem message_admitted_only_if_verified (s : State) (o src tgt : Nat) (ok : Bool)
    (h : (s.authVerification o src tgt ok).1.posted ≠ s.posted) :
    ∃ tn source, s.tree.find (byHash tgt) = some tn ∧ s.getCheckpoint src = some source ∧
      s.verifyVerification s.tree o src source.height tgt tn.ckpt.height ok = true := by
  rw [authVerification_eq] at h
  split at h
  · exact absurd rfl h
  · rename_i tn hfind
    split at h
    · exact absurd rfl h
    · rename_i source hsource
      split at h
      · exact absurd rfl h
      · split at h
        · exact absurd rfl h
        · split at h
          · exact absurd rfl h
          · split at h
            · exact absurd rfl h
            · rename_i hver
              exact ⟨tn, source, hfind, hsource, by simpa using hver⟩

/-- **The node's own vote is checked.** `applyMyVerification` (`ownVote`, the part of `applyBlock` cut out
    in Lemmas/CasperSteps.applyBlock_eq) adds and posts the node's vote only for the last justified
    ancestor as source, with its own validator order below `nVal`, and only if the vote passes
    `verifyVerification` (both commandments) against the tree and the stored data at that moment. -/
theorem own_vote_is_checked (s : State) (b : Header) (tree1 : Tree) (target : Ckpt)
    (h : ownVote s b tree1 target ≠ (b.sup, s.posted)) :
    ∃ me src, s.cfg.me = some me ∧ me < s.cfg.nVal ∧ lastJustifiedAncestor tree1 b.id = some src ∧
      ({ s with tree := tree1 } : State).verifyVerification tree1 me src.hash src.height b.id b.height true = true ∧
      ownVote s b tree1 target = (addSupLinkH b.sup src.hash src.height { slot := me, valid := true },
        s.posted ++ [(me, src.hash, b.id)]) := by
  rcases ownVote_cases s b tree1 target with h' | h'
  · exact absurd h' h
  · exact h'

/-- **The node's own vote is recorded under its true source (what fix 03420039 buys, finding F36).**
    Whenever the node casts its own vote, the sup list that goes into the stored header (and through
    `applySupLinks` into the checkpoint) contains an entry with exactly the source hash AND the true
    source height of the vote that holds the node's slot — whatever entries the delivered copy `b.sup`
    already carries, in particular one naming the same source hash with another declared height. -/
theorem own_vote_recorded_under_true_source (s : State) (b : Header) (tree1 : Tree) (target : Ckpt)
    (h : ownVote s b tree1 target ≠ (b.sup, s.posted)) :
    ∃ me src, s.cfg.me = some me ∧ lastJustifiedAncestor tree1 b.id = some src ∧
      ∃ l ∈ (ownVote s b tree1 target).1, l.src = src.hash ∧ l.srcHeight = src.height ∧ hasSlot l me = true := by
  obtain ⟨me, src, h1, _, h3, _, h5⟩ := own_vote_is_checked s b tree1 target h
  obtain ⟨l, hl, q1, q2, q3⟩ := addSupLinkH_has b.sup src.hash src.height { slot := me, valid := true }
  refine ⟨me, src, h1, h3, l, by rw [h5]; exact hl, q1, q2, ?_⟩
  exact hasSlot_iff.mpr ⟨_, q3, rfl⟩

/-- the sup list `applyBlock` returns for a block whose checkpoint is complete is the one `ownVote` built -/
theorem applyBlock_returns_ownVote_sup (s : State) (b : Header) (tree0 : Tree) (tn : Tree)
    (h1 : s.tree.find (byHash b.id) = none) (h2 : s.ensureNode s.fuel s.tree b.parent = some tree0)
    (h3 : (applyTree1 s b tree0).find (byHash b.id) = some tn) (h4 : (tn.ckpt.status == .growing) = false) :
    (s.applyBlock b).2.2 = (ownVote s b (applyTree1 s b tree0) tn.ckpt).1 := by
  rw [applyBlock_eq]
  simp only [h1, h2]
  unfold applyRest
  simp only [h3, h4, Bool.false_eq_true, if_false]
  split <;> rfl

/-- counter-witness (the code before the fix): with the hash-only merge of `Checkpoint.AddVerification`
    used at the header level, a delivered entry naming the same source hash with a wrong declared height
    swallows the own slot — no entry with the true source height holds it, and `applySupLinks` then
    discards the whole entry -/
example : addSupLink [{ src := 7, srcHeight := 99, sigs := [] }] 7 4 { slot := 0, valid := true } =
    [{ src := 7, srcHeight := 99, sigs := [{ slot := 0, valid := true }] }] := by decide
example : addSupLinkH [{ src := 7, srcHeight := 99, sigs := [] }] 7 4 { slot := 0, valid := true } =
    [{ src := 7, srcHeight := 99, sigs := [] }, { src := 7, srcHeight := 4, sigs := [{ slot := 0, valid := true }] }] := by decide

/-! ### the full property is refuted without restart (finding F35) -/

/-- validator `o` voted from source height `sH` to checkpoint `tgt` of height `tH`: the vote is inside
    the tree, or the node posted it (its own votes and every message it authenticated and relayed) -/
def Voted (U : Universe) (s : State) (o sH tH tgt : Nat) : Prop :=
  (∃ c ∈ s.tree.flatten, c.hash = tgt ∧ c.height = tH ∧ ∃ l ∈ c.sup, l.srcHeight = sH ∧ hasSlot l o = true) ∨
  (∃ src, (o, src, tgt) ∈ s.posted ∧ U.height src = sH ∧ U.height tgt = tH)

/-- the property at full strength, for runs without restart -/
def c18_full : Prop :=
  ∀ (U : Universe) (cfg : Config) (genesis : Header) (evs : List Event),
    2 ≤ cfg.epoch → genesis.id = U.g → genesis.height = 0 → RunOK U evs →
    ∀ o sH1 tH1 t1 sH2 tH2 t2,
      Voted U (run (State.init cfg genesis) evs) o sH1 tH1 t1 →
      Voted U (run (State.init cfg genesis) evs) o sH2 tH2 t2 →
      ¬ (tH1 = tH2 ∧ t1 ≠ t2) ∧ ¬ (sH1 < sH2 ∧ tH2 < tH1)

namespace W35
/-! four validators, epoch 2. Branch A: b1 … b4; branch B: b5 (child of b0), b6 … b10 (height 6).
    Validator 0 votes b0 → b10; b2 (branch A) is justified by validators 0,1,2 and finalized by the link
    b2 → b4 of validators 1,2,3: the tree is re-rooted at b2 and branch B, with validator 0's vote, is
    forgotten; validator 0's vote b2 → b4 (heights 2 → 4, strictly inside 0 → 6) is then admitted and
    relayed.  corpus/node/pcasper-findings.txt (F35), reproduced on the real node. -/
theorem hstep (i : Nat) (h : i ≠ 0) :
    (if 5 ≤ i then i - 4 else i) = (if 5 ≤ (if i = 5 then 0 else i - 1) then (if i = 5 then 0 else i - 1) - 4 else (if i = 5 then 0 else i - 1)) + 1 := by
  by_cases h5 : i = 5
  · subst h5; decide
  · by_cases h6 : 5 ≤ i
    · have : 5 ≤ i - 1 := by omega
      simp [h5, h6, this]; omega
    · have : ¬ 5 ≤ i - 1 := by omega
      simp [h5, h6, this]; omega
def U : Universe := { g := 0, parent := fun i => if i = 5 then 0 else i - 1, height := fun i => if 5 ≤ i then i - 4 else i, height_g := rfl, height_step := hstep }
def g : Header := { id := 0, parent := 4294967295, height := 0, slot := 0, rank := 0, sup := [] }
def cfg : Config := { epoch := 2, nVal := 4, me := none }
def blk (i : Nat) : Header := { id := i, parent := U.parent i, height := U.height i, slot := U.height i, rank := 0, sup := [] }
def evs : List Event :=
  [.deliver (blk 1), .deliver (blk 2), .deliver (blk 3), .deliver (blk 4), .deliver (blk 5), .deliver (blk 6),
   .deliver (blk 7), .deliver (blk 8), .deliver (blk 9), .deliver (blk 10),
   .vote 0 0 10 true, .vote 0 0 2 true, .vote 1 0 2 true, .vote 2 0 2 true,
   .vote 1 2 4 true, .vote 2 2 4 true, .vote 3 2 4 true, .vote 0 2 4 true]
def fin : State := run (State.init cfg g) evs

theorem posted_both : (0, 0, 10) ∈ fin.posted ∧ (0, 2, 4) ∈ fin.posted := by decide +kernel
theorem root_moved : fin.tree.ckpt.hash = 2 := by decide +kernel
end W35

/-- **F35.** Without any restart the node admits and relays two votes of validator 0 one of which lies
    strictly inside the other. -/
theorem c18_full_refuted : ¬ c18_full := by
  intro h
  have hr : RunOK W35.U W35.evs := by
    intro e he
    simp only [W35.evs, List.mem_cons, List.not_mem_nil, or_false] at he
    rcases he with rfl | rfl | rfl | rfl | rfl | rfl | rfl | rfl | rfl | rfl | rfl | rfl | rfl | rfl | rfl | rfl | rfl | rfl
    all_goals first | trivial | exact ⟨by decide, rfl, rfl⟩
  have h' := h W35.U W35.cfg W35.g W35.evs (by decide) rfl rfl hr 0 0 6 10 2 4 4
    (Or.inr ⟨0, W35.posted_both.1, rfl, rfl⟩) (Or.inr ⟨2, W35.posted_both.2, rfl, rfl⟩)
  exact h'.2 ⟨by decide, by decide⟩

/-! ### across restarts even the tree-only statement fails (findings F10b / F10c) -/

/-- `tree_votes_no_surround` for runs that may contain restarts -/
def c18_tree_across_restart : Prop :=
  ∀ (U : Universe) (cfg : Config) (genesis : Header) (evs : List Event),
    2 ≤ cfg.epoch → genesis.id = U.g → genesis.height = 0 → BlocksOK U evs →
    ∀ o a b c d, HasVote (run (State.init cfg genesis) evs).tree o a b →
      HasVote (run (State.init cfg genesis) evs).tree o c d → ¬ (a < c ∧ d < b)

namespace W10
/-! two validators, epoch 2, chain b1 … b4.  The delivered copy of b2 carries a sup link with validator
    0's slot that `ApplyBlock` does not admit (here: wrong declared source height, which keeps the
    witness evaluable by the kernel; the corpus case F10c has a correctly declared, validly signed,
    surrounding vote refused by the span rule — same mechanism); validator 0's vote b0 → b4 is admitted
    (the in-memory b2 has no slot); after `restart` b2 is reloaded WITH the header slot: validator 0 now
    has the votes 0 → 4 and 1 → 2 inside the tree. -/
def U : Universe := { g := 0, parent := fun i => i - 1, height := fun i => i, height_g := rfl, height_step := fun i h => by omega }
def g : Header := { id := 0, parent := 4294967295, height := 0, slot := 0, rank := 0, sup := [] }
def cfg : Config := { epoch := 2, nVal := 2, me := none }
def blk (i : Nat) : Header := { id := i, parent := i - 1, height := i, slot := i, rank := 0, sup := [] }
def carried : SupLink := { src := 0, srcHeight := 1, sigs := [{ slot := 0, valid := true }] }
def evs1 : List Event := [.deliver (blk 1), .deliver { blk 2 with sup := [carried] }, .deliver (blk 3), .deliver (blk 4), .vote 0 0 4 true]
def pre : State := run (State.init cfg g) evs1

def rec0 : CkptRec := { hash := 0, height := 0, parentHash := 0, status := .justified }
def rec2 : CkptRec := { hash := 2, height := 2, parentHash := 0, status := .unjustified }
def rec4 : CkptRec := { hash := 4, height := 4, parentHash := 2, status := .unjustified }

theorem mergeSort_recs (le : CkptRec → CkptRec → Bool) (h42 : le rec4 rec2 = false)
    (h20 : le rec2 rec0 = false) : [rec4, rec2, rec0].mergeSort le = [rec0, rec2, rec4] := by
  simp [List.mergeSort, h42, h20]

/-- the votes of validator 0 inside the reloaded tree, as (checkpoint height, source height) pairs -/
def votes0 (s : State) : List (Nat × Nat) :=
  s.tree.flatten.flatMap (fun c => (c.sup.filter (fun l => hasSlot l 0)).map (fun l => (c.height, l.srcHeight)))

theorem restart_votes : pre.restart.map votes0 = some [(2, 1), (4, 0)] := by
  unfold State.restart
  have h1 : pre.header pre.best = some { blk 4 with sup := [{ src := 0, srcHeight := 0, sigs := [{ slot := 0, valid := true }] }] } := by
    decide +kernel
  have h2 : pre.header pre.statusFin = some g := by decide +kernel
  rw [h1, h2]
  have h3 : (pre.ckpts.filter (fun r =>
      (({ hash := pre.statusFin, height := g.height, parentHash := 0, status := .finalized } : CkptRec).height < r.height ||
        (({ hash := pre.statusFin, height := g.height, parentHash := 0, status := .finalized } : CkptRec).height == r.height &&
          decide (pre.rankOf ({ hash := pre.statusFin, height := g.height, parentHash := 0, status := .finalized } : CkptRec).hash ≤ pre.rankOf r.hash))))) =
      [rec4, rec2, rec0] := by
    decide +kernel
  simp only [h3]
  rw [mergeSort_recs _ (by decide +kernel) (by decide +kernel)]
  decide +kernel
end W10

theorem hasVote_of_votes0 {s : State} {tH sH : Nat} (h : (tH, sH) ∈ W10.votes0 s) : HasVote s.tree 0 sH tH := by
  unfold W10.votes0 at h
  obtain ⟨c, hc, hm⟩ := List.mem_flatMap.mp h
  obtain ⟨l, hl, he⟩ := List.mem_map.mp hm
  obtain ⟨hl1, hl2⟩ := List.mem_filter.mp hl
  simp only [Prod.mk.injEq] at he
  exact ⟨c, hc, he.1, l, hl1, he.2, hl2⟩

theorem run_restart (s : State) :
    run s [.restart] = match s.restart with | some s' => s' | none => s := rfl

/-- **F10b/F10c.** After a restart the reloaded tree holds a vote of validator 0 that lies strictly inside
    another of its votes. -/
theorem c18_tree_across_restart_refuted : ¬ c18_tree_across_restart := by
  intro h
  have hb : BlocksOK W10.U (W10.evs1 ++ [.restart]) := by
    intro e he
    simp only [W10.evs1, List.cons_append, List.nil_append, List.mem_cons, List.not_mem_nil, or_false] at he
    rcases he with rfl | rfl | rfl | rfl | rfl | rfl
    all_goals first | trivial | exact ⟨by decide, rfl, rfl⟩
  have h' := h W10.U W10.cfg W10.g (W10.evs1 ++ [.restart]) (by decide) rfl rfl hb 0 0 4 1 2
  rw [run_append] at h'
  have hdef : run (State.init W10.cfg W10.g) W10.evs1 = W10.pre := rfl
  rw [hdef, run_restart] at h'
  have hv := W10.restart_votes
  cases hr : W10.pre.restart with
  | none => rw [hr] at hv; cases hv
  | some s' =>
    rw [hr] at hv h'
    have hv' : W10.votes0 s' = [(2, 1), (4, 0)] := Option.some.inj hv
    exact h' (hasVote_of_votes0 (by rw [hv']; simp)) (hasVote_of_votes0 (by rw [hv']; simp)) ⟨by decide, by decide⟩

/-- **Partial.** What does hold: without restart events the tree never contains a surround pair
    (`tree_votes_no_surround`).  The excluded classes are exactly: votes that are no longer inside the
    tree (pruned below / beside a new root: F35) and runs with a restart (F10b, F10c). -/
theorem c18_partial (U : Universe) (cfg : Config) (genesis : Header) (evs : List Event)
    (he : 2 ≤ cfg.epoch) (hg : genesis.id = U.g) (h0 : genesis.height = 0) (hb : BlocksOK U evs)
    (hnr : Event.restart ∉ evs) :
    ∀ o a b c d, HasVote (run (State.init cfg genesis) evs).tree o a b →
      HasVote (run (State.init cfg genesis) evs).tree o c d → ¬ (a < c ∧ d < b) :=
  tree_votes_no_surround U cfg genesis evs he hg h0 (RunOK.of_blocksOK hb hnr)

/-! ### non-vacuity -/

/-- in the F35 run (which satisfies `RunOK`, see `c18_full_refuted`) the tree does hold votes of one
    validator for two heights, so `tree_votes_no_surround` is not vacuous -/
example : HasVote W35.fin.tree 1 0 2 ∧ HasVote W35.fin.tree 1 2 4 := by
  unfold HasVote; decide +kernel

end BytomModel.Props.C18
