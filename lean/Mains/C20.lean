import BytomModel.Drv.C20
def main (args : List String) : IO UInt32 := do
  BytomModel.Drv.C20.run args
  return 0
