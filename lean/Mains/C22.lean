import BytomModel.Drv.C22
def main (args : List String) : IO UInt32 := do
  BytomModel.Drv.C22.run args
  return 0
