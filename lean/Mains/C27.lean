import BytomModel.Drv.C27
def main (args : List String) : IO UInt32 := do
  BytomModel.Drv.C27.run args
  return 0
