import BytomModel.Drv.C30
def main (args : List String) : IO UInt32 := do
  BytomModel.Drv.C30.run args
  return 0
