import BytomModel.Drv.C09
def main (args : List String) : IO UInt32 := do
  BytomModel.Drv.C09.run args
  return 0
