import BytomModel.Drv.C29
def main (args : List String) : IO UInt32 := do
  BytomModel.Drv.C29.run args
  return 0
