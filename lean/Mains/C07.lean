import BytomModel.Drv.C07
def main (args : List String) : IO UInt32 := do
  BytomModel.Drv.C07.run args
  return 0
