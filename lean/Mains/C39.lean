import BytomModel.Drv.C39
def main (args : List String) : IO UInt32 := do
  BytomModel.Drv.C39.run args
  return 0
