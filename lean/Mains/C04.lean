import BytomModel.Drv.C04
def main (args : List String) : IO UInt32 := do
  BytomModel.Drv.C04.run args
  return 0
