import BytomModel.Drv.EconUtil
def main (args : List String) : IO UInt32 := do
  BytomModel.Drv.EconUtil.run args
  return 0
