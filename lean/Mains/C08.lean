import BytomModel.Drv.C08
def main (args : List String) : IO UInt32 := do
  BytomModel.Drv.C08.run args
  return 0
