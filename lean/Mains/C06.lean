import BytomModel.Drv.C06
def main (args : List String) : IO UInt32 := do
  BytomModel.Drv.C06.run args
  return 0
