import BytomModel.Drv.C33
def main (args : List String) : IO UInt32 := do
  BytomModel.Drv.C33.run args
  return 0
