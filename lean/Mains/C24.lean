import BytomModel.Drv.C24
def main (args : List String) : IO UInt32 := do
  BytomModel.Drv.C24.run args
  return 0
