import BytomModel.Drv.C21
def main (args : List String) : IO UInt32 := do
  BytomModel.Drv.C21.run args
  return 0
