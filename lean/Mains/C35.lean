import BytomModel.Drv.C35
def main (args : List String) : IO UInt32 := do
  BytomModel.Drv.C35.run args
  return 0
