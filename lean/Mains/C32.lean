import BytomModel.Drv.C32
def main (args : List String) : IO UInt32 := do
  BytomModel.Drv.C32.run args
  return 0
