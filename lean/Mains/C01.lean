import BytomModel.Drv.C01
def main (args : List String) : IO UInt32 := do
  BytomModel.Drv.C01.run args
  return 0
