import BytomModel.Drv.C36
def main (args : List String) : IO UInt32 := do
  BytomModel.Drv.C36.run args
  return 0
