import BytomModel.Drv.C34
def main (args : List String) : IO UInt32 := do
  BytomModel.Drv.C34.run args
  return 0
