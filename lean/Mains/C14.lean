import BytomModel.Drv.C14
def main (args : List String) : IO UInt32 := do
  BytomModel.Drv.C14.run args
  return 0
