import BytomModel.Drv.C31
def main (args : List String) : IO UInt32 := do
  BytomModel.Drv.C31.run args
  return 0
