import BytomModel.Drv.C05
def main (args : List String) : IO UInt32 := do
  BytomModel.Drv.C05.run args
  return 0
