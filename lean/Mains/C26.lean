import BytomModel.Drv.C26
def main (args : List String) : IO UInt32 := do
  BytomModel.Drv.C26.run args
  return 0
