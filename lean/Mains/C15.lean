import BytomModel.Drv.C15
def main (args : List String) : IO UInt32 := do
  BytomModel.Drv.C15.run args
  return 0
