import BytomModel.Drv.Node
def main (args : List String) : IO UInt32 := do
  BytomModel.Drv.Node.run args
  return 0
