import BytomModel.Drv.C03
def main (args : List String) : IO UInt32 := do
  BytomModel.Drv.C03.run args
  return 0
