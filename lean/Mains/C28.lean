import BytomModel.Drv.C28
def main (args : List String) : IO UInt32 := do
  BytomModel.Drv.C28.run args
  return 0
