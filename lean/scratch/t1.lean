import BytomModel.Model.VM.Run
namespace T
open BytomModel.VM OpM

variable {σ α β : Type}
@[simp] theorem bind_def (m : OpM σ α) (f : α → OpM σ β) (s : σ) :
    (m >>= f) s = match m s with | .ok a s' => f a s' | .err e s' => .err e s' | .panic => .panic := rfl
@[simp] theorem pure_def (a : α) (s : σ) : (pure a : OpM σ α) s = .ok a s := rfl
@[simp] theorem ofExcept_ok (a : α) (s : σ) : (ofExcept (.ok a) : OpM σ α) s = .ok a s := rfl
@[simp] theorem ofExcept_error (e : Err) (s : σ) : (ofExcept (.error e) : OpM σ α) s = .err e s := rfl
@[simp] theorem get_def (s : σ) : (OpM.get : OpM σ σ) s = .ok s s := rfl
@[simp] theorem throwE_def (e : Err) (s : σ) : (throwE e : OpM σ α) s = .err e s := rfl
@[simp] theorem vlen (x : Bytes) : valueMem.len x = x.length := rfl
@[simp] theorem vread (m : Unit) (x : Bytes) : valueMem.read m x = x := rfl
@[simp] theorem modifyF_def {μ ι : Type} (g : Frame ι → Frame ι) (s : St μ ι) : modifyF g s = .ok () { s with f := g s.f } := rfl
@[simp] theorem getF_def {μ ι : Type} (s : St μ ι) : getF s = .ok s.f s := rfl

theorem frameStep_op (ctx : Context Bytes) (f : Frame Bytes) (inst : Inst)
    (hparse : parseOpL f.prog.length f.prog f.pc = .ok inst) (hexp : isExpansion inst.op = false)
    (hcp : inst.op ≠ 0xc0) :
    frameStep valueMem ctx ⟨(), f⟩ =
      match execOp valueMem ctx inst.op inst.data ⟨(), { f with nextPC := f.pc + inst.len, deferred := 0 }⟩ with
      | .ok _ s =>
        (match applyCost s.f.deferred s with
         | .ok _ s' => .ok .continue_ ⟨s'.mem, { s'.f with pc := s'.f.nextPC }⟩
         | .err e s' => .err e s'
         | .panic => .panic)
      | .err e s => .err e s
      | .panic => .panic := by
  unfold frameStep
  simp only [bind_def, get_def, vlen, vread, hparse, ofExcept_ok, modifyF_def, hexp, opCheckPredicateCode, hcp,
    Bool.false_eq_true, if_false, epilogue, getF_def, pure_def]
  cases h : execOp valueMem ctx inst.op inst.data ⟨(), { f with nextPC := f.pc + inst.len, deferred := 0 }⟩ with
  | ok a s =>
    simp only []
    cases h2 : applyCost s.f.deferred s <;> simp
  | err e s => simp
  | panic => simp
end T
