import BytomModel.Model.VM.Run
namespace T
open BytomModel.VM OpM
theorem e76 (ctx : Context Bytes) (d : Bytes) : execOp valueMem ctx 0x76 d = nDup valueMem 1 := rfl
theorem eab (ctx : Context Bytes) (d : Bytes) : execOp valueMem ctx 0xab d = opHash160 valueMem ctx := rfl
theorem e14 (ctx : Context Bytes) (d : Bytes) : execOp valueMem ctx 0x14 d = opPushdata valueMem d := rfl
theorem epush (ctx : Context Bytes) (d : Bytes) (op : Nat) (h0 : op ≠ 0) (h : op ≤ 0x4e) : execOp valueMem ctx op d = opPushdata valueMem d := by
  unfold execOp; simp [h0, h]
theorem esmall (ctx : Context Bytes) (d : Bytes) (op : Nat) (h0 : 0x51 ≤ op) (h : op ≤ 0x60) : execOp valueMem ctx op d = opPushdata valueMem d := by
  unfold execOp
  have : ¬ op = 0 := by omega
  have h2 : ¬ op ≤ 0x4e := by omega
  simp [this, h2, h0, h]
theorem ead (ctx : Context Bytes) (d : Bytes) : execOp valueMem ctx 0xad d = opCheckMultiSig valueMem ctx := rfl
end T
