import BytomModel.Model.VM.Run
namespace T
open BytomModel.VM OpM

variable {σ α β : Type}
@[simp] theorem bind_def (m : OpM σ α) (f : α → OpM σ β) (s : σ) :
    (m >>= f) s = match m s with | .ok a s' => f a s' | .err e s' => .err e s' | .panic => .panic := rfl
@[simp] theorem pure_def (a : α) (s : σ) : (pure a : OpM σ α) s = .ok a s := rfl
@[simp] theorem ofExcept_ok (a : α) (s : σ) : (ofExcept (.ok a) : OpM σ α) s = .ok a s := rfl
@[simp] theorem ofExcept_error (e : Err) (s : σ) : (ofExcept (.error e) : OpM σ α) s = .err e s := rfl
@[simp] theorem get_def (s : σ) : (OpM.get : OpM σ σ) s = .ok s s := rfl
@[simp] theorem throwE_def (e : Err) (s : σ) : (throwE e : OpM σ α) s = .err e s := rfl
@[simp] theorem vlen (x : Bytes) : valueMem.len x = x.length := rfl
@[simp] theorem vread (m : Unit) (x : Bytes) : valueMem.read m x = x := rfl
@[simp] theorem vfresh (m : Unit) (x : Bytes) (n : Nat) : valueMem.fresh m x n = ((), x) := rfl
@[simp] theorem modifyF_def {μ ι : Type} (g : Frame ι → Frame ι) (s : St μ ι) : modifyF g s = .ok () { s with f := g s.f } := rfl
@[simp] theorem getF_def {μ ι : Type} (s : St μ ι) : getF s = .ok s.f s := rfl

theorem applyCost_ok {μ ι : Type} (n : Int) (m : μ) (P : ι) (pc np : Nat) (rl df : Int) (data alt : List ι) (d : Nat) (e : Bool)
    (h : n ≤ rl) : applyCost n (⟨m, ⟨P, pc, np, rl, df, data, alt, d, e⟩⟩ : St μ ι) =
      .ok () ⟨m, ⟨P, pc, np, rl - n, df, data, alt, d, e⟩⟩ := by
  unfold applyCost
  have : ¬ n > rl := by omega
  simp [this]

theorem e76 (ctx : Context Bytes) (d : Bytes) : execOp valueMem ctx 0x76 d = nDup valueMem 1 := rfl

theorem dup_ok (ctx : Context Bytes) (P : Bytes) (pc np : Nat) (rl : Int) (x : Bytes) (rest alt : List Bytes) (d : Nat) (e : Bool)
    (hg : 9 + (x.length : Int) ≤ rl) :
    execOp valueMem ctx 0x76 [] ⟨(), ⟨P, pc, np, rl, 0, x :: rest, alt, d, e⟩⟩ =
      .ok () ⟨(), ⟨P, pc, np, rl - (9 + x.length), 0, x :: x :: rest, alt, d, e⟩⟩ := by
  rw [e76]
  simp (disch := omega) [nDup, dupLoop, applyCost_ok, pushItem, itemCost]
  rw [List.getElem?_cons_zero]
  simp (disch := omega) [applyCost_ok]
  omega
end T
