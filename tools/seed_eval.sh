#!/bin/bash
# usage: seed_eval.sh <PROPERTY-ID> [<out-dir, default /tmp/seed/ID.out>] [<check ids, default ID>]
# Confirms a seeded change (applies, builds, existing tests of the touched packages pass, the
# demo fails with it and passes without it), then runs the checks against the patched copy.
ID=$1; OUT=${2:-/tmp/seed/$ID.out}; CHECKS=${3:-$ID}
export GOFLAGS=-mod=mod GOPROXY=off GOSUMDB=off GOTOOLCHAIN=local
W=/var/tmp/seedrepo-$ID
rm -rf $W $W-clean; mkdir -p $W
rsync -a --exclude .git /repo/ $W/
rsync -a --exclude .git /repo/ $W-clean/
cd $W && patch -p1 -s < $OUT/patch.diff || { echo "RESULT patch-does-not-apply"; exit 2; }
PKGS=$(grep '^+++ ' $OUT/patch.diff | sed 's#^+++ [ab]/##; s#/[^/]*$##' | sort -u | sed 's#^#./#; s#$#/...#' | tr '\n' ' ')
echo "touched packages: $PKGS"
go build $PKGS || { echo "RESULT does-not-build"; exit 2; }
go test -vet=off -count=1 $PKGS 2>&1 | grep -v "no test files" | tail -8
# failing existing tests with the change vs without it (some tests fail on the unchanged tree too)
F1=$(go test -vet=off -count=1 $PKGS 2>&1 | grep -- "^--- FAIL" | sort -u)
F0=$(cd $W-clean && go test -vet=off -count=1 $PKGS 2>&1 | grep -- "^--- FAIL" | sed 's/ (.*//' | sort -u)
F1=$(echo "$F1" | sed 's/ (.*//')
if [ "$F1" == "$F0" ] || [ -z "$F1" ]; then echo "existing-tests: pass"; [ -n "$F0" ] && echo "  (failing on the unchanged tree too: $F0)"; else echo "existing-tests: FAIL ($F1) vs unchanged ($F0)"; fi
DP=$(cat $OUT/demo_path.txt | tr -d '\n ')
cp $OUT/zz_seed_demo_test.go $W/$DP/ ; cp $OUT/zz_seed_demo_test.go $W-clean/$DP/
(cd $W && go test -vet=off -count=1 ./$DP/ -run 'Seed|seed|Demo|ZZ|Zz' 2>&1 | tail -3; go test -vet=off -count=1 ./$DP/ -run 'Seed|seed|Demo|ZZ|Zz' >/dev/null 2>&1 && echo "demo-with-change: PASS(unexpected)" || echo "demo-with-change: fail(expected)")
(cd $W-clean && go test -vet=off -count=1 ./$DP/ -run 'Seed|seed|Demo|ZZ|Zz' >/dev/null 2>&1 && echo "demo-without-change: pass(expected)" || echo "demo-without-change: FAIL(unexpected)")
rm -f $W/$DP/zz_seed_demo_test.go
rm -rf $W-clean
cd /verif
for c in $CHECKS; do
  echo "== check $c against the patched copy"
  VERIF_REPO=$W ./check $c 2>&1 | grep -v "^\[check\]" | tail -4
  echo "check-exit($c)=$?"
done
rm -rf $W
