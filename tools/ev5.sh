#!/bin/bash
for i in "$@"; do /verif/.build/seed_eval.sh ${i}e /tmp/seed/${i}e.out $i > /tmp/seed/${i}e.eval 2>&1; done
