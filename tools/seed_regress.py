#!/usr/bin/env python3
"""Re-run every saved seeded change against the CURRENT checks.
usage: tools/seed_regress.py [seed-dir-name ...]   (default: all of seeded/*/)
For each seed: scratch copy of /repo under /var/tmp, apply patch.diff, `VERIF_REPO=<copy> ./check <ID>`,
record the outcome under "regression" in seeded/<name>/meta.json, remove the copy."""
import json,os,re,subprocess,sys,glob,shutil,time
names=sys.argv[1:] or sorted(os.path.basename(d.rstrip('/')) for d in glob.glob('/verif/seeded/*/'))
res=[]
for name in names:
    d='/verif/seeded/'+name; pid=name.split('-')[0]
    if not os.path.exists(d+'/patch.diff'): continue
    w='/var/tmp/seedreg-'+name; shutil.rmtree(w,ignore_errors=True); os.makedirs(w)
    subprocess.run(['rsync','-a','--exclude','.git','/repo/',w+'/'],check=True)
    p=subprocess.run(['patch','-p1','-s','-i',d+'/patch.diff'],cwd=w,capture_output=True,text=True)
    if p.returncode!=0:
        out={'result':'patch-does-not-apply-to-current-repo','detail':(p.stdout+p.stderr)[-300:]}
    else:
        t=time.time()
        env=dict(os.environ,VERIF_REPO=w)
        q=subprocess.run(['./check',pid],cwd='/verif',env=env,capture_output=True,text=True)
        txt=q.stdout+q.stderr
        vl=[l for l in txt.splitlines() if l.startswith('VIOLATION')]
        out={'check':'./check '+pid,'exit':q.returncode,'seconds':round(time.time()-t,1)}
        if vl:
            out['result']='detected' if 'no-failing-input-found' not in vl[-1] else 'detected (tie/proof only, no-failing-input-found)'
            m=re.search(r'replay=(\S+)',vl[-1])
            try:
                r=json.load(open(m.group(1))); out['failing_input']=r.get('failing_input'); out['observed']=(r.get('observed') or '')[:300]
            except Exception: pass
        else: out['result']='MISSED'
    shutil.rmtree(w,ignore_errors=True)
    try: m=json.load(open(d+'/meta.json'))
    except Exception: m={}
    out['repo_head']=subprocess.run(['git','-C','/repo','rev-parse','--short','HEAD'],capture_output=True,text=True).stdout.strip()
    m['regression']=out; json.dump(m,open(d+'/meta.json','w'),indent=1)
    print(name,out['result'],out.get('failing_input') or '',flush=True); res.append((name,out['result']))
print(sum(1 for r in res if r[1].startswith('detected')),'of',len(res),'detected')
