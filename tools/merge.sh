#!/bin/bash
# merge a builder branch, dropping generated lake files
cd /verif
git merge --no-commit --no-ff "$1" >/dev/null 2>&1
git rm -q -f lean/lakefile.toml 2>/dev/null; git rm -q -f lean/BytomModel.lean 2>/dev/null
git rm -q -r -f lean/Mains 2>/dev/null
for f in $(git status --short | grep "^UU\|^AA" | awk '{print $2}' | grep "^evidence/"); do git checkout --ours $f; git add $f; done
git status --short | grep "^UU\|^AA\|^UD\|^DU" && { echo "CONFLICTS REMAIN"; exit 1; }
git commit -q -m "Merge branch '$1'" && echo merged $1
python3 -c "
from importlib.machinery import SourceFileLoader
m=SourceFileLoader('check','/verif/check').load_module()
m.gen_lake_files()"
