#!/usr/bin/env python3
# usage: seed_save.py <ID> [<check id, default ID>] [<suffix, default sub1>] -- after .build/seed_eval.sh <ID> > /tmp/seed/<ID>.eval
import json,sys,os,shutil,re
ID=sys.argv[1]; CK=sys.argv[2] if len(sys.argv)>2 else ID; SUF=sys.argv[3] if len(sys.argv)>3 else 'sub1'
out='/tmp/seed/%s.out'%ID; ev=open('/tmp/seed/%s.eval'%ID).read()
dst='/verif/seeded/%s-%s'%(CK,SUF); os.makedirs(dst,exist_ok=True)
for f in ['patch.diff','zz_seed_demo_test.go','demo_path.txt']:
    shutil.copy(os.path.join(out,f),dst)
try: m=json.load(open(os.path.join(out,'meta.json')))
except Exception as e: m={'property':ID,'summary':'(seeder meta.json unreadable: %s)'%e}
m['origin']='fresh sub-agent given only the property text and a scratch worktree of /repo'
m['confirmed_by_coordinator']={'builds':'does-not-build' not in ev,'existing_tests_of_touched_packages':'pass' if 'existing-tests: pass' in ev else 'FAIL',
  'demo_with_change':'fails' if 'demo-with-change: fail(expected)' in ev else 'PASSES','demo_without_change':'passes' if 'demo-without-change: pass(expected)' in ev else 'FAILS','how':'.build/seed_eval.sh '+ID}
det={'check':'./check %s (quick tier, VERIF_REPO=<patched copy>)'%CK}
vl=[l for l in ev.splitlines() if l.startswith('VIOLATION')]
if vl:
    vl=[vl[-1]]; det['violation_line']=vl[0]
    rp=re.search(r'replay=(\S+)',vl[0]).group(1)
    try:
        r=json.load(open(rp))
        for k in ['kind','failing_input','observed','broken_obligations','theorem','note']:
            if k in r: det[k]=r[k]
    except Exception as e: det['replay_unreadable']=str(e)
    det['detected']=True; det['concrete_input']='no-failing-input-found' not in vl[0]
else:
    det['detected']=False
m['detected_by']=det
json.dump(m,open(os.path.join(dst,'meta.json'),'w'),indent=1)
print(ID,'detected' if det['detected'] else 'MISSED',det.get('concrete_input'),det.get('failing_input','')[:100])
