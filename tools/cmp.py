import sys
d=sys.argv[1]
ops=open(d+'/ops.txt').read().split('\n'); impl=open(d+'/impl.txt').read().split('\n'); model=open(d+'/model.txt').read().split('\n')
n=0
for i,(a,b) in enumerate(zip(impl,model)):
    if a!=b:
        n+=1
        if n<=int(sys.argv[2]) if len(sys.argv)>2 else 3:
            # find reset
            j=i
            while j>0 and not ops[j].startswith('reset'): j-=1
            print('--- mismatch at',i,'case starts',j)
            print('op   :',ops[i]); print('impl :',a); print('model:',b)
print('total mismatches',n,'of',len(impl))
