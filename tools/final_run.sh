#!/bin/bash
# Re-creates the committed evidence: full setup, then every quick check once on the unchanged tree.
cd /verif || exit 1
./check --setup > /tmp/final_setup.log 2>&1 || { echo "SETUP FAILED"; tail -5 /tmp/final_setup.log; exit 1; }
: > /tmp/final_checks.log
for p in props/C*.json; do id=$(basename $p .json); ./check $id 2>&1 | grep -E "^VIOLATION|^C[0-9][0-9]:" | cut -c1-200 >> /tmp/final_checks.log; done
grep -c ": ok" /tmp/final_checks.log; grep -v ": ok" /tmp/final_checks.log
