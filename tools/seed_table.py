#!/usr/bin/env python3
# writes seeded/README.md: which check catches which seeded change (from seeded/*/meta.json)
import json,glob,os
rows=[]
for d in sorted(glob.glob('/verif/seeded/*/')):
    try: m=json.load(open(d+'meta.json'))
    except Exception: continue
    det=m.get('detected_by',{})
    if isinstance(det,str): det={'check':det,'detected':True}
    name=os.path.basename(d.rstrip('/'))
    files=sorted(set(l[6:].strip() for l in open(d+'patch.diff') if l.startswith('+++ b/')))
    reg=m.get('regression') or {}
    how='MISSED'
    if det.get('detected',True):
        how='concrete input' if det.get('concrete_input',True) else 'broken tie/proof only (no-failing-input-found)'
    if reg.get('result') and not reg['result'].startswith('patch-does-not-apply'):
        how={'detected':'concrete input','MISSED':'MISSED'}.get(reg['result'], reg['result'])
        if reg['result']=='detected' and reg.get('failing_input'): det=dict(det,failing_input=reg['failing_input'])
        if reg['result']=='MISSED' and det.get('also_caught_by'): how='caught by a sibling check: '+det['also_caught_by'][:80]
        if 'no-failing-input-found' in reg['result'] and det.get('also_caught_by'): how+='; concrete input from a sibling check: '+det['also_caught_by'][:90]
    if (reg.get('result') or '').startswith('patch-does-not-apply'): how+=' (at the time; the patch no longer applies to the repaired tree)'
    rows.append((name,', '.join(files),(m.get('summary') or '')[:160].replace('|','/').replace('\n',' '),det.get('check','').split(' (')[0],how,(det.get('failing_input') or '')[:90].replace('|','/'),'yes' if det.get('history') else ''))
out=['# Seeded property-breaking changes and the checks that catch them','',
 'Each directory holds `patch.diff` (the change, written by a fresh sub-agent that saw only the property text), the demonstration test and `meta.json` (what it needs to manifest, confirmation, detection result).','',
 '| seed | file(s) | change | caught by | how | failing input reported | check strengthened after a miss |','|---|---|---|---|---|---|---|']
for r in rows: out.append('| '+' | '.join(r)+' |')
open('/verif/seeded/README.md','w').write('\n'.join(out)+'\n')
print(len(rows),'seeds;',sum(1 for r in rows if r[4]=='MISSED'),'missed')
